"""C16 — the compiler is total: any grammar text gives a parser or a diagnostic."""
import glob
import json
import os
import random
import re

from common import lean_obligations, build_harness, hx, unhx, run_vdyn, load_findings
import lrfamily as lf
from gram import random_grammar, annotate

LEVEL = "proof"
PROP_MODULE = "Rustemo.Props.C16"

BROKEN = [
    "", " ", "S", "S:", "S: ;", "S: A;", "S: 'a';", "terminals\nA: 'a';\n", "S: A;\nterminals\n", "S: A | ;\nterminals\nA: 'a';\n",
    "S: A {4294967296};\nterminals\nA: 'a';\n", "S: A {99999999999999999999};\nterminals\nA: 'a';\n",
    "S: A STOP;\nterminals\nA: 'a';\n", "S: STOP;\n", "S: EMPTY;\n", "S: x=EMPTY A;\nterminals\nA: 'a';\n",
    "S: (A | B) C;\nterminals\nA: 'a';\nB: 'b';\nC: 'c';\n", "S: A*!;\nterminals\nA: 'a';\n", "S: A+! B?!;\nterminals\nA: 'a';\nB: 'b';\n",
    "S: A+[B, C];\nterminals\nA: 'a';\nB: 'b';\nC: 'c';\n", "S: A;\nterminals\nA: 'a';\nA: 'b';\n", "S: A;\nS: A;\nterminals\nA: 'a';\n",
    "S: A {my.kind};\nterminals\nA: 'a';\n", "S: A {Kind};\nterminals\nA: 'a';\n", "S: S;\n", "S: S | A;\nA: S;\n", "S: A;\nA: A;\nterminals\n",
    "S: A B | A C;\nA: 'x';\nB: EMPTY;\nC: EMPTY;\nterminals\nX: 'x';\n", "S: A | B | C;\nA: Tx;\nB: Tx {20};\nC: Tx {5};\nterminals\nTx: 'x';\n",
    "S: A Ta | B Ta | Tx Ta;\nA: Tx;\nB: Tx {20};\nterminals\nTa: 'a';\nTx: 'x';\n",
    "S: A;\nterminals\nA: /(/;\n", "S: A;\nterminals\nA: /[a-/;\n", "S: A;\nterminals\nA: ;\n", "S: A;\nterminals\nA: 'a' {left, right, 5, 6};\n",
    "S: A {left, right};\nterminals\nA: 'a';\n", "S {5}: A {left} | A A {right};\nterminals\nA: 'a';\n", "S: a=A b?=A c=A*;\nterminals\nA: 'a';\n",
    "Layout: WS;\nterminals\nWS: /\\s+/;\n", "S: A;\nLayout: EMPTY;\nterminals\nA: 'a';\n", "S: A;\nLayout: S;\nterminals\nA: 'a';\n",
    "S: 'a' 'b';\n", "S: \"a\";\nterminals\nA: \"a\";\n", "@vec S: S A | A;\nterminals\nA: 'a';\n", "@foo S: A;\nterminals\nA: 'a';\n",
    "import 'x.rustemo';\nS: A;\nterminals\nA: 'a';\n", "S: A {flag: true, x: 1.5, y: 'z'};\nterminals\nA: 'a' {k: 3};\n",
    "S: 1;\n", "1: A;\n", "S: A;;\nterminals\nA: 'a';\n", "S: A\nterminals\nA: 'a';\n", "S: A; terminals A: 'a", "S: A; terminals A: /a",
    "// c\nS: A; /* x */ terminals A: 'a';", "/* unterminated\nS: A;", "S: A{};\nterminals\nA: 'a';\n", "S: A {,};\nterminals\nA: 'a';\n",
    "S: AOpt A?;\nAOpt: A;\nterminals\nA: 'a';\n", "S: A1 A+;\nA1: A;\nterminals\nA: 'a';\n", "S: A0 A*;\nA0: A;\nterminals\nA: 'a';\n",
    "STOP: A;\nterminals\nA: 'a';\n", "EMPTY: A;\nterminals\nA: 'a';\n", "AUG: A;\nterminals\nA: 'a';\n", "S: AUG;\nterminals\nA: 'a';\n",
    "S: A;\nterminals\nSTOP: 'a';\nA: 'b';\n", "S: A;\nterminals\nEMPTY: 'a';\nA: 'b';\n", "S: fn;\nterminals\nfn: 'a';\n", "S: Self;\nterminals\nSelf: 'a';\n",
    "S: Type Box;\nType: Ta;\nBox: Tb;\nterminals\nTa: 'a';\nTb: 'b';\n", "S: If;\nterminals\nIf: /if/;\n", "S: Self_ Fn;\nSelf_: Ta;\nFn: Tb;\nterminals\nTa: /a/;\nTb: /b/;\n",
    "S: A1 B;\nA1: Tb A+;\nA: Ta;\nB: Ta;\nterminals\nTa: 'a';\nTb: 'b';\n", "S: A+ A1;\nA1: Tb;\nA: Ta;\nterminals\nTa: 'a';\nTb: 'b';\n",
    "S: A STOP*;\nterminals\nA: 'a';\n", "S: A+[STOP];\nterminals\nA: 'a';\n", "S: A {kind: 'x y'};\nterminals\nA: 'a';\n", "S: A {fn};\nterminals\nA: 'a';\n",
    "S: EMPTY | Tb | S S;\nterminals\nTb: 'b';\n", "S: A S | EMPTY;\nA: EMPTY | Tb;\nterminals\nTb: 'b';\n",
    "@vec\nItems: Items Item | Item | None;\nItem: Num;\nterminals\nNum: /\\d+/;\nNone: 'none';\n",
    "@vec\nItems: Item Items | Item | EMPTY;\nItem: Num;\nterminals\nNum: /\\d+/;\n",
    "@vec\nItems: Items Comma Item | Item | Semi;\nItem: Num | Id;\nterminals\nNum: /\\d+/;\nId: /[a-z]+/;\nComma: ',';\nSemi: ';';\n",
    "@vec\nS: S A | A | Kw Kw;\nA: Ta;\nterminals\nTa: /a/;\nKw: 'k';\n", "@vec\nS: A;\nA: Ta;\nterminals\nTa: /a/;\n",
    "@vec\nS: S S | Ta;\nterminals\nTa: /a/;\n", "@vec\nS: Ta S Tb | Ta;\nterminals\nTa: /a/;\nTb: /b/;\n",
    "S: _1 Tx;\n_1: Ta | Tb | EMPTY;\nterminals\nTa: /a/;\nTb: /b/;\nTx: 'x';\n", "S: _7 Tx;\n_7: x=Ta y=Tb | EMPTY;\nterminals\nTa: /a/;\nTb: /b/;\nTx: 'x';\n",
    "S: A;\nterminals\nA: '';\n", "S: A;\nterminals\nA: //;\n", "S: A B;\nterminals\nA: 'a';\nB: 'a';\n",
]

TOKEN_RE = re.compile(r"\s+|//[^\n]*|/\*.*?\*/|'(?:\\.|[^'\\])*'|\"(?:\\.|[^\"\\])*\"|/(?:\\.|[^/\\\n])+/|[A-Za-z_][A-Za-z_0-9]*|\d+|.", re.S)
SNIPPETS = ["{", "}", "(", ")", "[", "]", ":", ";", "|", ",", "=", "?=", "*", "+", "?", "!", "@", "EMPTY", "STOP", "terminals", "Layout",
            "left", "right", "5", "99999999999", "{left}", "{right, 20}", "{nops}", "'x'", "/x+/", "A", "S", "x=", "#", "\\", "\x00", "é", "import"]


def corpus():
    out = []
    for p in sorted(glob.glob("/repo/**/*.rustemo", recursive=True)):
        if "/target/" in p:
            continue
        try:
            out.append((os.path.relpath(p, "/repo"), open(p, encoding="utf-8").read()))
        except Exception:
            pass
    return out


def mutate_text(rng, text):
    toks = TOKEN_RE.findall(text)
    if not toks:
        return rng.choice(SNIPPETS)
    k = rng.randint(0, 7)
    i = rng.randrange(len(toks))
    if k == 0:
        del toks[i]
    elif k == 1:
        toks.insert(i, rng.choice(SNIPPETS))
    elif k == 2:
        toks[i] = rng.choice(SNIPPETS)
    elif k == 3:
        j = rng.randrange(len(toks))
        toks[i], toks[j] = toks[j], toks[i]
    elif k == 4:
        toks.insert(i, toks[rng.randrange(len(toks))])
    elif k == 5:
        toks = toks[:i]
    elif k == 6:
        b = bytearray("".join(toks).encode())
        if b:
            b[rng.randrange(len(b))] = rng.randrange(256)
        return b.decode("utf-8", errors="replace")
    else:
        # several edits
        s = "".join(toks)
        for _ in range(3):
            s = mutate_text(rng, s)
        return s
    return "".join(toks)


def settings_vec(rng):
    algo = rng.choice(["LR", "LR", "GLR"])
    tt = rng.choice(["-", "LALR", "LALR_PAGER", "LALR_RN"])
    return [algo, tt, rng.choice("01-"), rng.choice("01-")] + ["-"] * 6


def gen(rng, tier):
    n_mut = 1500 if tier == "quick" else 20000
    jobs = []   # (family, text, builder, gentable, settings)
    corp = corpus()
    for name, text in corp:
        for st in (["LR", "-"] + ["-"] * 8, ["GLR", "-"] + ["-"] * 8):
            jobs.append(("corpus:" + name, text, "G", "F", st))
    for text in BROKEN:
        for st in (["LR", "-"] + ["-"] * 8, ["GLR", "-"] + ["-"] * 8, ["LR", "LALR", "1", "0"] + ["-"] * 6,
                   ["LR", "LALR", "0", "0"] + ["-"] * 6):
            for b in "DG":
                jobs.append(("broken", text, b, rng.choice("FA"), st))
    for _ in range(n_mut):
        name, text = rng.choice(corp) if corp and rng.random() < 0.6 else ("rand", annotate(rng, random_grammar(rng)).render())
        if len(text) > 3000:
            continue
        jobs.append(("mutation", mutate_text(rng, text), rng.choice("DG"), rng.choice("FA"), settings_vec(rng)))
    for _ in range(n_mut // 5):
        g = annotate(rng, random_grammar(rng, p_empty=0.2), p_prod=0.6, p_term=0.4, p_rule=0.3)
        jobs.append(("annotated", g.render(), rng.choice("DG"), rng.choice("FA"), settings_vec(rng)))
    # identifier shapes: every name the grammar language accepts (valid Rust identifiers incl. leading / doubled / only
    # underscores, digits after an underscore, one letter) in every role - rule with EMPTY alternative (struct / enum /
    # optional types), content terminal, keyword terminal, assignment name, production kind; default builder
    # (type and action names are DERIVED from them by case conversion) and generic builder
    odd = ["_1", "__", "_", "_a", "A_", "a__B", "_9_", "__x", "X_1", "x", "_1a", "A1_", "___", "_0", "a_1_b", "Ab_", "_Ab", "ß", "Δx"]
    templates = [
        "S: {R} {T};\n{R}: {T} {K} | EMPTY;\nterminals\n{T}: /a+/;\n{K}: 'k';\n",
        "S: {R}? {R}*;\n{R}: {n}={T} {K} | {K} {m}={T} {T};\nterminals\n{T}: /a+/;\n{K}: 'k';\n",
        "S: {R}+[{K}];\n{R}: {T} {{{V}}} | {K} {T} {{{W}}} | EMPTY;\nterminals\n{T}: /a+/;\n{K}: 'k';\n",
        "{R}: {T} {R} | EMPTY;\nterminals\n{T}: /a+/;\n",
        "S: {n}={R} {m}?={K};\n{R}: {T}* {K};\nterminals\n{T}: /a+/;\n{K}: 'k';\n",
    ]
    for it in range(400 if tier == "quick" else 4000):
        t = templates[it % len(templates)]
        roles = ["R", "T", "K", "n", "m", "V", "W"]
        # every role gets the odd names in turn; a second odd name lands anywhere
        first = roles[(it // len(templates)) % len(roles)]
        rest = [r for r in roles if r != first]
        rng.shuffle(rest)
        nm = rng.sample(odd, 2) + rng.sample(["Rr", "Tt", "Kk", "nn", "mm", "Vv", "Ww"], 5)
        sub = dict(zip([first] + rest, nm))
        jobs.append(("names", t.format(**sub), rng.choice("DDG"), rng.choice("FA"), settings_vec(rng)))
    # the front-end families of C09 (repetition sugar in every order and combination, separators, named/bool assignments,
    # meta-data, inline strings, name clashes, Layout rules, broken specs) through the WHOLE compiler, and token-level
    # mutations of them
    try:
        import c09
        for c in c09.generate(rng, 400 if tier == "quick" else 5000):
            text = getattr(c, "text", None)
            if not text or len(text) > 3000:
                continue
            jobs.append(("frontend", text, rng.choice("DG"), rng.choice("FA"), settings_vec(rng)))
            if rng.random() < 0.3:
                jobs.append(("frontend-mutation", mutate_text(rng, text), rng.choice("DG"), rng.choice("FA"), settings_vec(rng)))
    except Exception as e:      # the C09 machinery is optional for C16
        jobs.append(("broken", "S: A;\nterminals\nA: 'a';\n", "G", "F", ["LR", "-"] + ["-"] * 8))
    return jobs


def known_key(findings, text, ans):
    msg = ""
    if ans.startswith("compile panic "):
        try:
            msg = unhx(ans.split(" ")[2]).decode(errors="replace")
        except Exception:
            msg = ""
    for f in findings:
        pat = f.get("panic_pattern")
        tpat = f.get("text_pattern")
        if pat and re.search(pat, msg) and (tpat is None or re.search(tpat, text)):
            return f["key"]
    return None


def run(rep, tier, seed):
    rng = random.Random(seed)
    proofs_ok = lean_obligations(rep, PROP_MODULE)
    ok, log = build_harness()
    if not ok:
        rep.oblige("cargo build harness/dyn against /repo", False, log[-1500:])
        rep.violation({"broken": "harness build", "log": log[-3000:]}, no_input=True)
        return
    # Tie C: the panic-capable sites of the compiler crate are the ones the models and findings were written against
    import inventory16
    try:
        inv_diff = inventory16.diff(json.load(open(inventory16.COMMITTED))["sites"], inventory16.extract())
    except Exception as e:
        inv_diff = [f"inventory could not be computed: {e}"]
    rep.oblige("inventory:c16 panic-capable sites of rustemo-compiler/src = inventory/c16.json", not inv_diff, "; ".join(inv_diff)[:1500])
    rep.inv_diff = inv_diff
    jobs = gen(rng, tier)
    findings = [f for f in load_findings() if f["property"] == "C16"]
    # known findings' witnesses first
    wit = [("finding:" + f["key"], f["witness"]["grammar"], f["witness"].get("builder", "G"), "F",
            f["witness"].get("settings", "LR - - - - - - - - -").split(" ")) for f in findings if "witness" in f]
    check(rep, wit + jobs, findings, proofs_ok)


def check(rep, jobs, findings, proofs_ok):
    groups = [["C " + b + " " + gt + " " + " ".join(st) + " " + hx(text)] for (_, text, b, gt, st) in jobs]
    answers = run_vdyn(groups, tag="c16")
    bad = []
    distinct = set()
    seen_known = {}
    for (fam, text, b, gt, st), ans in zip(jobs, answers):
        a = ans[0]
        rep.count("evaluations")
        rep.count("family:" + fam.split(":")[0])
        cls = " ".join(a.split(" ")[1:3]) if a.startswith("compile err") else " ".join(a.split(" ")[:2])
        rep.count("result:" + cls)
        distinct.add((text, " ".join(st), b, gt))
        okc = a.startswith("compile ok generated=1") or a.startswith("compile err ")
        if okc:
            if fam.startswith("finding:"):
                key = fam.split(":", 1)[1]
                f = next(f for f in findings if f["key"] == key)
                if f["status"] == "known":
                    rep.notes.append(f"known finding {key} no longer reproduces on its witness")
            continue
        key = known_key([f for f in findings if f["status"] == "known"], text, a)
        if key:
            rep.count("known:" + key)
            seen_known[key] = next(f for f in findings if f["key"] == key)["what"]
            continue
        bad.append((fam, text, b, gt, st, a))
    rep.counters["distinct_nontrivial"] = len(distinct)
    for key, what in seen_known.items():
        rep.known_finding(key, what)
    rep.cov["rule"] = ("every .rustemo file of the repository + a list of hand-written broken/odd texts (every construct the grammar of "
                       "grammars accepts, misuse of STOP/EMPTY/AUG, huge integers, duplicates, undefined symbols, bad regexes, keywords) + "
                       "token-level and byte-level mutations of those and of random annotated BNF grammars + the front-end families of C09 (sugar in "
                       "every order, separators, assignments, meta-data, inline strings, name clashes, Layout) and their mutations x {LR,GLR} x table types x "
                       "prefer-shift settings x {default, generic builder} x {functions, arrays}; the real Settings::process_grammar under "
                       "catch_unwind + watchdog; distinct = (text, settings)")
    rep.sample({"text": jobs[len(jobs) // 2][1][:200], "settings": " ".join(jobs[len(jobs) // 2][4])})
    # shrink and report: group by panic message
    by_msg = {}
    for item in bad:
        a = item[5]
        m = a.split(" ")[2] if a.startswith("compile panic") and len(a.split(" ")) > 2 else a
        try:
            m = re.sub(r":\d+:\d+", "", unhx(m).decode(errors="replace"))[:160]
        except Exception:
            pass
        by_msg.setdefault(m, []).append(item)
    rep.counters["distinct_failure_kinds"] = len(by_msg)
    for m, items in sorted(by_msg.items(), key=lambda kv: min(len(i[1]) for i in kv[1]))[:6]:
        fam, text, b, gt, st, a = min(items, key=lambda i: len(i[1]))
        msg = a
        if a.startswith("compile panic") and len(a.split(" ")) > 2:
            try:
                msg = "panic: " + unhx(a.split(" ")[2]).decode(errors="replace")
            except Exception:
                pass
        rep.violation({"grammar": text, "settings": " ".join(st), "builder": b, "gentable": gt, "impl": msg[:600], "family": fam,
                       "why": "the compiler neither generated a parser nor returned an error value", "kind": "impl!=oracle",
                       "same_kind_cases": len(items)})
    if not bad and not proofs_ok:
        rep.violation({"why": f"Lean obligations of {PROP_MODULE} no longer check",
                       "obligations": [o for o in rep.obligations if not o[1]]}, no_input=True)
    elif not bad and getattr(rep, "inv_diff", None):
        rep.violation({"broken": "inventory:c16", "differences": rep.inv_diff,
                       "why": "the set of panic-capable sites (unwrap/expect/panic!/unreachable!/todo!/assert!) of the compiler crate "
                              "differs from the one the totality models and findings were written against; the differential run "
                              "found no panicking text"}, no_input=True)
    rep.counters["oracle_failures"] = len(bad)


def replay(rep, path):
    p = json.load(open(path))
    build_harness()
    findings = [f for f in load_findings() if f["property"] == "C16"]
    check(rep, [("replay", p["grammar"], p.get("builder", "G"), p.get("gentable", "F"), p["settings"].split(" "))], findings, True)
