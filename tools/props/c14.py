"""C14 — the generic parse tree is lossless: tokens and layout reconstruct the input."""
import json
import random
import re

from common import lean_obligations, build_harness, hx
import lrfamily as lf
import treeparse as tp
import oracles

LEVEL = "proof"
PROP_MODULE = "Rustemo.Props.C14"


# the stored layout is a sentence of the Layout rule (kinds of tools/gram.py)
LAYOUT_RE = {"ws": re.compile(r"\s+\Z"), "comments": re.compile(r"(?:\s+|//[^\n]*)*\Z")}


def layout_kind_of(c):
    k = c.gram.layout if c.gram is not None else None
    if k is None and "layout:" in c.text.lower():
        k = "user"
    return k


def nested_ok(s):
    """loose check for the nested-comment Layout: whitespace, // line comments, balanced /* */ blocks"""
    i, depth = 0, 0
    while i < len(s):
        if s.startswith("/*", i):
            depth += 1
            i += 2
        elif s.startswith("*/", i) and depth > 0:
            depth -= 1
            i += 2
        elif depth > 0:
            i += 1
        elif s[i].isspace():
            i += 1
        elif s.startswith("//", i):
            j = s.find("\n", i)
            i = len(s) if j < 0 else j
        else:
            return False
    return depth == 0


def oracle(c):
    bad = []
    layout_kind = layout_kind_of(c)
    shapes = {}
    for k, ((algo, partial, inp, meta), res) in enumerate(zip(c.inputs, c.results)):
        toks = tuple(meta.get("toks", ())) if meta else ()
        if c.gram is not None and layout_kind in (None, "ws", "comments", "nested") and \
                not oracles.tokenizable(layout_kind, inp, set(c.gram.terms.values())):
            toks = ("<not tokenizable>", k)      # malformed layout / foreign character: not a layout INSERTION of anything
        if lf.klass(res) != "ok":
            shapes.setdefault(toks, []).append((k, None))
            continue
        try:
            t = tp.parse_tree_text(res[3:])
        except Exception as e:
            bad.append((k, f"unparsable answer: {e}"))
            continue
        probs, out = oracles.roundtrip_oracle(inp, t, layout_kind)
        data = inp.encode()
        # up to trailing layout before the end (full parse consumes everything)
        rest = data[len(out):] if data.startswith(out) else b""
        if not probs and partial == "0" and layout_kind is None and not oracles.is_ws(rest):
            probs.append(f"unconsumed non-layout tail {rest!r}")
        # the stored layout is a sentence of the Layout rule
        if not probs and layout_kind in ("ws", "comments", "nested"):
            for lfn in tp.leaves(t):
                lay = lfn["lay"]
                if lay is None or lay[0] == "ext":
                    continue
                try:
                    ls = data[lay[0]:lay[0] + lay[1]].decode()
                except UnicodeDecodeError:
                    probs.append("stored layout is not on character boundaries")
                    break
                good = nested_ok(ls) if layout_kind == "nested" else bool(LAYOUT_RE[layout_kind].match(ls))
                if not good or not ls:
                    probs.append(f"stored layout {ls!r} is not a sentence of the Layout rule ({layout_kind})")
                    break
        if probs:
            bad.append((k, "; ".join(probs[:2])))
        shapes.setdefault(toks, []).append((k, tp.shape(t)))
    # inserting layout between the tokens of a sentence never changes which tree is built
    for toks, lst in shapes.items():
        ok_shapes = [s for _, s in lst if s is not None]
        if ok_shapes and any(s != ok_shapes[0] for _, s in lst):
            k = next(k for k, s in lst if s != ok_shapes[0])
            bad.append((k, "layout insertion changes the result for the same token sequence"))
    return bad


def gen(rng, tier):
    n = 40 if tier == "quick" else 400
    cases = []
    for layout, ws in ((None, ("none", "mixed")), ("ws", ("mixed",)), ("comments", ("mixed", "layout")),
                       ("nested", ("mixed", "layout"))):
        kw = dict(unicode=(layout is None), layout=layout)
        cases += lf.bnf_cases(rng, n, tts=("LALR_PAGER",), algo="LR", max_len=3, n_sent=10, n_mut=3, ws=ws, gen_kw=kw)
    # the LR parser on a right-nulled table (selectable with the LR algorithm)
    cases += lf.bnf_cases(rng, max(6, n // 4), tts=("LALR_RN",), algo="LR", max_len=3, n_sent=10, n_mut=3, ws=("none", "mixed"),
                          gen_kw=dict(unicode=True, p_empty=0.3))
    cases += lf.bnf_cases(rng, max(6, n // 4), tts=("LALR_RN",), algo="LR", max_len=3, n_sent=10, n_mut=3, ws=("mixed", "layout"),
                          gen_kw=dict(layout="comments", p_empty=0.3))
    return cases


# ---------------------------------------------------------------------------------------------
# directed family: content tokens that share a prefix with layout, LALR-merged lookaheads, layout
# rules that can fail half way or are not idempotent (the classes of the repaired findings C14-N1 /
# C14-N2: layout skipped on re-lexing after a reduce, failed layout parse). Everything must round-trip.
# ---------------------------------------------------------------------------------------------

def collide_templates(rng):
    a, x, y, cc = rng.sample("abdefghkmnpqtuvxyz", 4)
    out = []
    # (1) `/` division vs `//` line comments; state after `a` has the merged lookaheads {X, Div}
    g = (f"S: A X | C A Div Y;\nA: Ta;\nLayout: LayoutItem*;\nLayoutItem: WS | CommentLine;\nterminals\n"
         f"Ta: '{a}';\nX: '{x}';\nY: '{y}';\nC: '{cc}';\nDiv: '/';\nWS: /\\s+/;\nCommentLine: /\\/\\/.*/;\n")
    out.append((g, [[a, x], [cc, a, "/", y], [a, "/", y], [cc, a, x]], ["", " ", "//c\n", " // c\n", "\n", "  ", "//ü\n", " // 中文 €\n", "//é\n//ö\n"], ("0", "1")))
    # (2) `#` token vs `##` layout word
    g = (f"S: A X | C A D;\nA: Ta;\nLayout: L;\nterminals\nTa: '{a}';\nX: '{x}';\nC: '{cc}';\nD: '#';\nL: '##';\n")
    out.append((g, [[a, x], [cc, a, "#"], [a, "#"], [cc, a, x]], ["", "##", "#", "####"], ("0", "1")))
    # (3) a one-space token vs whitespace layout
    g = (f"S: A X | C A Sp Y;\nA: Ta;\nLayout: LayoutItem+;\nLayoutItem: WS;\nterminals\n"
         f"Ta: '{a}';\nX: '{x}';\nY: '{y}';\nC: '{cc}';\nSp: ' ';\nWS: /\\s+/;\n")
    out.append((g, [[a, x], [cc, a, " ", y], [a, " ", y]], ["", " ", "\n", "  ", "\t"], ("0", "1")))
    # (4) bracketed layout that can fail half way (partial parse continues behind the failed layout)
    g = (f"S: A Bopt;\nA: Ta;\nBopt: Tb | EMPTY;\nLayout: LP WS RP;\nterminals\n"
         f"Ta: '{a}';\nTb: '{x}';\nLP: '(';\nWS: /\\s+/;\nRP: ')';\n")
    out.append((g, [[a, x], [a], [a, x, x]], ["", "( )", "( ", "(  ", "(", "( )( )"], ("0", "1")))
    # (5) a Layout rule that is not idempotent: `ab` or `a`, greedy on the first token only
    g = (f"S: A Bopt;\nA: Ta;\nBopt: Tb | EMPTY;\nLayout: LA LB | LA;\nterminals\n"
         f"Ta: 't';\nTb: 'b';\nLA: 'a';\nLB: 'b';\n")
    out.append((g, [["t", "b"], ["t"]], ["", "a", "ab", "aab", "aa"], ("0", "1")))
    # (6) nested comments, unclosed at the end (the layout parser fails at the end of input only)
    g = (f"S: A Bopt;\nA: Ta;\nBopt: Tb | EMPTY;\nLayout: LayoutItem*;\nLayoutItem: WS | Comment;\n"
         f"Comment: '/*' Corncs '*/';\nCorncs: Cornc*;\nCornc: Comment | NotComment | WS;\nterminals\n"
         f"Ta: '{a}';\nTb: '{x}';\nWS: /\\s+/;\nCommentStart: '/*';\nCommentEnd: '*/';\n"
         f"NotComment: /((\\*[^\\/])|[^\\s*\\/]|\\/[^\\*])+/;\n")
    out.append((g, [[a, x], [a]], ["", " ", "/* c */", "/* c", " /* a /* b */", "/**/ ", "/* ü€ */", " /* ä /* 中 */ é */"], ("0", "1")))
    return out


def collide_cases(rng, tier):
    cases = []
    reps = 2 if tier == "quick" else 12
    uid = 0
    for _ in range(reps):
        for (g, seqs, pool, partials) in collide_templates(rng):
            for tt in ("LALR", "LALR_PAGER"):
                st = ["LR", tt, "-", "-", "-", "-", "-", "-", "-", "-"]
                inputs = []
                seen = set()
                for seq in seqs:
                    for _k in range(6 if tier == "quick" else 12):
                        s = "".join(rng.choice(pool) + tok for tok in seq) + rng.choice(pool)
                        for p in partials:
                            if (s, p) in seen:
                                continue
                            seen.add((s, p))
                            uid += 1
                            # layout may be lexable as a token here: outside the insertion-invariance statement
                            inputs.append(("LR", p, s, {"toks": ("collide", uid), "kind": "collide", "ws": "collide"}))
                cases.append(lf.Case(g, st, inputs, gram=None, tag="collide"))
    return cases


# ---------------------------------------------------------------------------------------------
# LayoutCert: `auto` = the (static) hypothesis of C14_roundtrip_layout; the per-offset conditions say which
# inputs exercise the code paths repaired for C14-N1 / C14-N2 (`old=0`); evaluated per input by the driver
# ---------------------------------------------------------------------------------------------

def extra_requests(c):
    reqs = ["cert noshiftstop", "cert structural 0 0"]
    c.lc_idx = []
    if c.dump is not None and "layout:" in c.text.lower():
        for k, ((algo, partial, inp, _m), mat) in enumerate(zip(c.inputs, c.matrices)):
            if c.results[k].startswith("skipped") or c.results[k] == "notable":
                continue
            c.lc_idx.append(k)
            reqs.append(f"layoutcert {hx(inp)} #{mat}")
    return reqs


def layoutcerts(c):
    """input index -> dict(auto, static, nottoken, idem, failstays, old) or None"""
    out = {}
    ex = getattr(c, "extra", None) or []
    for k, a in zip(getattr(c, "lc_idx", []), ex[2:]):
        if not a.startswith("layoutcert ls="):
            out[k] = None
            continue
        out[k] = {kv.split("=")[0]: kv.split("=")[1] == "1" for kv in a.split(" ")[2:]}
    return out


def run(rep, tier, seed):
    rng = random.Random(seed)
    proofs_ok = lean_obligations(rep, PROP_MODULE)
    ok, log = build_harness()
    if not ok:
        rep.oblige("cargo build harness/dyn against /repo", False, log[-1500:])
        rep.violation({"broken": "harness build", "log": log[-3000:]}, no_input=True)
        return
    fixed = lf.replay_known(rep, "C14", oracle)
    cases = fixed + gen(rng, tier) + collide_cases(rng, tier)
    lf.add_histories(rng, cases)
    lf.run_cases(cases, extra_requests=extra_requests)
    check(rep, cases, proofs_ok)


def check(rep, cases, proofs_ok):
    rep.cov["rule"] = ("random BNF grammars x {default whitespace skipping, Layout rule: whitespace / + line comments / + nested "
                       "block comments}; LR LALR_PAGER; inputs: strings up to length 3, sentences, mutations, rendered with "
                       "whitespace, newline, CRLF, NBSP and comment insertions between tokens (only where the inserted layout "
                       "is not itself lexable as a token); + directed family `collide`: content tokens sharing a prefix with "
                       "layout (`/` vs `//`, `#` vs `##`, ' ' vs whitespace), LALR-merged lookaheads, Layout rules that fail "
                       "half way / are not idempotent, partial parse on and off; per Layout input the driver evaluates "
                       "LayoutCert (`auto`: hypothesis of C14_roundtrip_layout; `old=0`: the input exercises the paths repaired "
                       "for C14-N1/N2); distinct = (grammar, settings, input)")
    unavailable = 0
    answered = 0
    auto_fail = []
    for c in cases:
        rep.count("layout_kind:" + str(layout_kind_of(c)) + (":" + c.tag if c.tag == "collide" else ""))
        lc = layoutcerts(c)
        fam = "collide" if c.tag == "collide" else "generated"
        for k, v in lc.items():
            if v is None:
                unavailable += 1
                continue
            answered += 1
            if not v.get("auto", False):
                auto_fail.append((c, k))
            rep.count(f"layoutcert:{fam}:" + ("old_loop_lossless_too" if v.get("old") else "exercises_repaired_paths"))
            for part in ("nottoken", "idem", "failstays"):
                if not v.get(part, True):
                    rep.count(f"layoutcert:{fam}:{part}=0")
            if k < len(c.results) and lf.klass(c.results[k]) == "ok":
                rep.count(f"layoutcert:{fam}:ok_parse" + ("" if v.get("old") else ":repaired_paths"))
    if answered or unavailable:
        rep.oblige("driver command layoutcert answers for every Layout input", unavailable == 0,
                   f"{unavailable} unanswered (Main.lean lacks the `layoutcert` dispatch line?)")
        rep.oblige("LayoutCert.autoOk holds on every Layout table (hypothesis of C14_roundtrip_layout)", not auto_fail,
                   "; ".join(sorted({c.text[:60] for c, _ in auto_fail})[:3]))

    def orc(c):
        bad = oracle(c)
        ex = getattr(c, "extra", None)
        if ex:
            okc = all(x == "1" for x in ex[:2])
            if c.settings[1] == "LALR_RN":
                # LR on a right-nulled table: outside Cert.structural (shorter reductions); correspondence + oracle only
                rep.count("right_nulled_table(outside the certificates):" + ("certs=1" if okc else "certs=0"))
                okc = True
            else:
                rep.count("certs_" + ("pass" if okc else "FAIL"))
            if not okc:
                bad.append((None, "Cert.noShiftStop / Cert.structural fail on the compiler's table: hypotheses of C14_roundtrip not met"))
        if any(cc is c for cc, _ in auto_fail):
            bad.append((None, "LayoutCert.autoOk fails on the compiler's table: hypothesis of C14_roundtrip_layout not met"))
        return bad
    lf.evaluate(rep, cases, orc, proofs_ok, PROP_MODULE,
                in_scope=lambda c: tp.parse_dump(c.dump)["conflicts"] == 0)


def replay(rep, path):
    p = json.load(open(path))
    build_harness()
    try:
        g = lf.parse_bnf(p["grammar"])
        g.layout = None
    except Exception:
        g = None
    c = lf.Case(p["grammar"], p["settings"].split(" "), [("LR", p.get("partial", "0"), p.get("input", ""), {"toks": ()})],
                gram=g, tag=p.get("tag", ""))
    lf.apply_replay_history(c, p)
    lf.run_cases([c], extra_requests=extra_requests)
    check(rep, [c], True)
