"""C14 — the generic parse tree is lossless: tokens and layout reconstruct the input."""
import json
import random

from common import lean_obligations, build_harness
import lrfamily as lf
import treeparse as tp
import oracles

LEVEL = "proof"
PROP_MODULE = "Rustemo.Props.C14"


def oracle(c):
    bad = []
    layout_kind = c.gram.layout if c.gram is not None else None
    shapes = {}
    for k, ((algo, partial, inp, meta), res) in enumerate(zip(c.inputs, c.results)):
        toks = tuple(meta.get("toks", ())) if meta else ()
        if lf.klass(res) != "ok":
            shapes.setdefault(toks, []).append((k, None))
            continue
        try:
            t = tp.parse_tree_text(res[3:])
        except Exception as e:
            bad.append((k, f"unparsable answer: {e}"))
            continue
        probs, out = oracles.roundtrip_oracle(inp, t, layout_kind)
        data = inp.encode()
        # up to trailing layout before the end (full parse consumes everything)
        rest = data[len(out):] if data.startswith(out) else b""
        if not probs and partial == "0" and layout_kind is None and not oracles.is_ws(rest):
            probs.append(f"unconsumed non-layout tail {rest!r}")
        if probs:
            bad.append((k, "; ".join(probs[:2])))
        shapes.setdefault(toks, []).append((k, tp.shape(t)))
    # inserting layout between the tokens of a sentence never changes which tree is built
    for toks, lst in shapes.items():
        ok_shapes = [s for _, s in lst if s is not None]
        if ok_shapes and any(s != ok_shapes[0] for _, s in lst):
            k = next(k for k, s in lst if s != ok_shapes[0])
            bad.append((k, "layout insertion changes the result for the same token sequence"))
    return bad


def gen(rng, tier):
    n = 40 if tier == "quick" else 400
    cases = []
    for layout, ws in ((None, ("none", "mixed")), ("ws", ("mixed",)), ("comments", ("mixed", "layout")),
                       ("nested", ("mixed", "layout"))):
        kw = dict(unicode=(layout is None), layout=layout)
        cases += lf.bnf_cases(rng, n, tts=("LALR_PAGER",), algo="LR", max_len=3, n_sent=10, n_mut=3, ws=ws, gen_kw=kw)
    return cases


def run(rep, tier, seed):
    rng = random.Random(seed)
    proofs_ok = lean_obligations(rep, PROP_MODULE)
    ok, log = build_harness()
    if not ok:
        rep.oblige("cargo build harness/dyn against /repo", False, log[-1500:])
        rep.violation({"broken": "harness build", "log": log[-3000:]}, no_input=True)
        return
    fixed = lf.replay_known(rep, "C14", oracle)
    cases = fixed + gen(rng, tier)
    lf.add_histories(rng, cases)
    lf.run_cases(cases, extra_requests=lambda c: ["cert noshiftstop", "cert structural 0 0"])
    check(rep, cases, proofs_ok)


def check(rep, cases, proofs_ok):
    rep.cov["rule"] = ("random BNF grammars x {default whitespace skipping, Layout rule: whitespace / + line comments / + nested "
                       "block comments}; LR LALR_PAGER; inputs: strings up to length 3, sentences, mutations, rendered with "
                       "whitespace, newline, CRLF, NBSP and comment insertions between tokens (only where the inserted layout "
                       "is not itself lexable as a token); distinct = (grammar, settings, input)")
    for c in cases:
        rep.count("layout_kind:" + str(c.gram.layout if c.gram else None))
    def orc(c):
        bad = oracle(c)
        ex = getattr(c, "extra", None)
        if ex:
            okc = all(x == "1" for x in ex)
            rep.count("certs_" + ("pass" if okc else "FAIL"))
            if not okc:
                bad.append((None, "Cert.noShiftStop / Cert.structural fail on the compiler's table: hypotheses of C14_roundtrip not met"))
        return bad
    lf.evaluate(rep, cases, orc, proofs_ok, PROP_MODULE,
                in_scope=lambda c: tp.parse_dump(c.dump)["conflicts"] == 0)


def replay(rep, path):
    p = json.load(open(path))
    build_harness()
    g = lf.parse_bnf(p["grammar"])
    c = lf.Case(p["grammar"], p["settings"].split(" "), [("LR", p.get("partial", "0"), p.get("input", ""), {"toks": ()})], gram=g)
    lf.apply_replay_history(c, p)
    lf.run_cases([c], extra_requests=lambda c: ["cert noshiftstop", "cert structural 0 0"])
    check(rep, [c], True)
