"""C02 — every successful LR parse yields a valid derivation tree of the consumed input."""
import json
import random

from common import lean_obligations, build_harness, unhx
import lrfamily as lf
import treeparse as tp
import oracles

LEVEL = "proof"
PROP_MODULE = "Rustemo.Props.C02"
WS = " \t\n\r"


def oracle(c):
    d = tp.parse_dump(c.dump)
    prods, nterms = lf.grammar_symbols(d)
    bad = []
    has_layout = c.gram is not None and c.gram.layout is not None    # what lies between tokens is C14's business then
    by_input = {}
    for k, ((algo, partial, inp, meta), res) in enumerate(zip(c.inputs, c.results)):
        by_input.setdefault(inp, {})[partial] = (k, res)
        if lf.klass(res) != "ok":
            continue
        try:
            t = tp.parse_tree_text(res[3:])
        except Exception as e:  # unparsable answer
            bad.append((k, f"unparsable tree: {e}"))
            continue
        # 1. derivation tree from the start symbol (on a right-nulled table — documented as "used for GLR parsing", but
        # selectable with the LR parser — reductions are shorter than the production where the tail is nullable: valid
        # modulo elided nullable tails, as for GLR trees)
        if c.settings[1] == "LALR_RN":
            nullable_syms = {d["nterms"]} | {d["nterms"] + nt for nt, f in enumerate(d["firsts"][d["nterms"]:]) if d["empty"] in f}
            okv = tp.valid_elided(t, prods, nterms, d["start"], nullable_syms)
        else:
            okv = tp.valid(t, prods, nterms, d["start"])
        if not okv:
            bad.append((k, "tree is not a derivation from the start symbol"))
            continue
        # 2. leaves in order are exactly the tokens of the consumed input
        data = inp.encode()
        pos = 0
        okk = True
        for leaf in tp.leaves(t):
            (s, _, _), (e, _, _) = leaf["span"]
            gap = data[pos:s]
            if s < pos or (not has_layout and not oracles.is_ws(gap)):
                okk = False
                break
            if has_layout and c.gram.layout in ("ws", "comments", "nested") and \
                    not oracles.layout_sentence(c.gram.layout, gap.decode(errors="replace")):
                okk = False     # what was skipped between two tokens is not layout: the leaves are not the tokens of the input
                break
            rs = lf.rec_string(d, leaf["kind"])
            if rs is not None and data[s:e] != rs.encode():
                okk = False
                break
            pos = e
        if okk and partial == "0" and not has_layout and not oracles.is_ws(data[pos:]):
            okk = False
        if okk and partial == "0" and has_layout and c.gram.layout in ("ws", "comments", "nested") and \
                not oracles.layout_sentence(c.gram.layout, data[pos:].decode(errors="replace")):
            okk = False
        if not okk:
            bad.append((k, "leaves are not the tokens of the consumed input in order"))
    # 3. partial parsing never turns an accepted input into a rejected or differently parsed one
    for inp, m in by_input.items():
        if "0" in m and "1" in m and lf.klass(m["0"][1]) == "ok" and lf.klass(m["1"][1]) in ("ok", "err", "panic") \
                and m["1"][1] != m["0"][1]:
            bad.append((m["1"][0], "partial_parse changes the result of an accepted input"))
    return bad


def settings_choice(rng):
    return {2: rng.choice(["0", "1"]), 3: rng.choice(["0", "1"])}


def run(rep, tier, seed):
    rng = random.Random(seed)
    proofs_ok = lean_obligations(rep, PROP_MODULE)
    ok, log = build_harness()
    if not ok:
        rep.oblige("cargo build harness/dyn against /repo", False, log[-1500:])
        rep.violation({"broken": "harness build", "log": log[-3000:]}, no_input=True)
        return
    n = 150 if tier == "quick" else 2000
    cases = lf.bnf_cases(rng, n, tts=("LALR", "LALR_PAGER"), algo="LR", max_len=4, n_sent=10, n_mut=6,
                         partial=("0", "1"), ws=("none", "mixed"), annot=True, extra_settings=settings_choice)
    cases += lf.bnf_cases(rng, max(10, n // 10), tts=("LALR_PAGER",), algo="LR", max_len=3, n_sent=8, n_mut=4,
                          partial=("0", "1"), ws=("mixed", "layout"), gen_kw=dict(layout="comments"))
    cases += lf.bnf_cases(rng, max(10, n // 10), tts=("LALR_PAGER",), algo="LR", max_len=3, n_sent=8, n_mut=4,
                          partial=("0", "1"), ws=("mixed", "layout"), gen_kw=dict(layout="nested"))
    # the LR parser on a RIGHT-NULLED table (parser_algo LR + table_type LALR_RN is selectable): reductions shorter than the
    # production; outside the structural certificate (counted), decided by correspondence + oracle
    cases += lf.bnf_cases(rng, max(20, n // 5), tts=("LALR_RN",), algo="LR", max_len=4, n_sent=10, n_mut=6,
                          partial=("0", "1"), ws=("none", "mixed"), annot=True, extra_settings=settings_choice,
                          gen_kw=dict(p_empty=0.3))
    lf.add_histories(rng, cases)
    lf.run_cases(cases, extra_requests=lambda c: ["cert structural 0 0"])
    check(rep, cases, proofs_ok)


def check(rep, cases, proofs_ok):
    def in_scope(c):
        d = tp.parse_dump(c.dump)
        return d["conflicts"] == 0      # the compiler rejects anything else in LR mode

    def orc(c):
        bad = oracle(c)
        if c.settings[1] == "LALR_RN":
            rep.count("right_nulled_table(outside Cert.structural):" + ("cert=1" if c.extra[0] == "1" else "cert=0"))
            return bad
        rep.count("cert_structural_" + ("pass" if c.extra[0] == "1" else "FAIL"))
        if c.extra[0] != "1":
            bad.append((None, "Cert.structural fails on the compiler's table: hypothesis of C02_tree_is_derivation not met"))
        return bad
    rep.cov["rule"] = ("random BNF grammars with random priority/associativity/nops/nopse meta-data on productions, "
                       "terminals and rules x {LALR, LALR_PAGER} x prefer_shifts x prefer_shifts_over_empty, kept iff the "
                       "compiler's table has no remaining conflict; inputs: all strings up to length 4, sentences, mutations, "
                       "each with/without whitespace, each with partial_parse off/on; distinct = (grammar, settings, input, partial)")
    lf.evaluate(rep, cases, orc, proofs_ok, PROP_MODULE, in_scope=in_scope)
    rep.assumptions += ["table type LALR / LALR_PAGER (reduce length = |rhs|); LALR_RN in LR mode is outside the statement",
                        "tree validity is judged against the grammar in the dump (its faithfulness to the text is C09)"]


def replay(rep, path):
    p = json.load(open(path))
    build_harness()
    g = lf.parse_bnf(p["grammar"])
    inputs = [("LR", pp, p.get("input", ""), {"toks": lf.toks_of_input(g, p.get("input", ""))}) for pp in ("0", "1")]
    c = lf.Case(p["grammar"], p["settings"].split(" "), inputs, gram=g)
    lf.apply_replay_history(c, p)
    lf.run_cases([c], extra_requests=lambda c: ["cert structural 0 0"])
    check(rep, [c], True)
