"""C09 — the grammar the compiler analyses is the grammar the user wrote (and the builder part of C16).

Tie A (correspondence): abstract grammar specs (tools/gramtext.py) are rendered to `.rustemo` text for the real
front end (vdyn job `F`: RustemoParser + GrammarBuilder through the hook `dump_grammar_only`) and to the File AST
for the Lean model (`front build repo <ast>`); the Grammar records / error kind / panic site are diffed.
Oracles, independent of the Lean model, evaluated on the IMPLEMENTATION's output:
  (1) structural: gramtext.doc_check — the documented production list, inheritance, inline-string resolution,
      start symbol, helper-rule shape and sharing, index consistency;
  (2) language: the set of sentences up to a length bound of the grammar the compiler built (from the dump, and by
      really parsing with the LR parser built from it) equals that of the hand-written documented expansion;
  (3) totality (C16, builder part): the front end never panics.
A failing case inside the class of a listed known finding (class predicates are computed by the Lean driver,
`front class`) is reported as KNOWN-FINDING, any other failure is a VIOLATION."""
import itertools
import json
import os
import random
import re

import common
from common import lean_obligations, build_harness, hx, unhx
import gramtext as gt

LEVEL = "proof"
PROP_MODULE = "Rustemo.Props.C09"

# scratch overrides (used only while developing, before the coordinator wires `front` / `F`)
if os.environ.get("VERIF_VDYN"):
    common.VDYN = os.environ["VERIF_VDYN"]
if os.environ.get("VERIF_DRIVER"):
    common.DRIVER = os.environ["VERIF_DRIVER"]

BUILDER_SRC = "/repo/rustemo-compiler/src/grammar/builder.rs"

# ---------------------------------------------------------------------------------------------
# normalising implementation answers
# ---------------------------------------------------------------------------------------------

ERR_PATTERNS = [
    ("ident", re.compile(r"Can't use '(.*)' as a valid Rust identifier\.", re.S)),
    ("prio99", re.compile(r"Priority must be <=99\.")),
    ("undefsugar", re.compile(r'Terminal "(.*)" is not defined in the terminals section\.', re.S)),
    ("undefinline", re.compile(r'Terminal "(.*)" used in production "(\d+):.*" is not defined in the \'terminals\' section\.', re.S)),
    ("unexisting", re.compile(r"Unexisting symbol '(.*)' in production '(\d+):.*'\.", re.S)),
    ("infrec", re.compile(r"Infinite recursion on symbol '(.*)' in production '(\d+):.*'\.", re.S)),
    # diagnostics of the proposed repairs (notes/C09-fix-*.diff)
    ("emptymisuse", re.compile(r"EMPTY can't be used in an assignment or as a separator\.")),
    ("helperclash", re.compile(r"'(.*)' is needed for the repetition '.*' but is already defined as a (?:rule|terminal)\.", re.S)),
    ("reserved", re.compile(r"'(.*)' is a reserved name\.", re.S)),
    ("dupname", re.compile(r"(?:Terminal|Rule) '(.*)' is already defined", re.S)),
    ("notimplemented", re.compile(r"(?:Parenthesized groups|Greedy repetitions|Multiple repetition modifiers) are not (?:yet )?implemented")),
    ("norules", re.compile(r"Grammar has no rules\.")),
    # repo 3da879f (C16): the production number is the only datum
    ("stopref", re.compile(r"STOP can't be referenced in production '(\d+):.*'\.", re.S)),
]


def classify_err(msg):
    for kind, rx in ERR_PATTERNS:
        m = rx.search(msg)
        if m:
            g = m.groups()
            if kind == "stopref":
                return ("err", kind, "=", g[0])
            name = g[0] if g else ""
            prod = g[1] if len(g) > 1 else "-"
            return ("err", kind, hx(name), prod)
    if "Expected" in msg or msg.startswith("Error at"):
        return ("err", "syntax", "=", "-")
    return ("err", "other", hx(msg[:60]), "-")


_src_cache = {}


def src_line(path, line):
    if path not in _src_cache:
        try:
            _src_cache[path] = open(path).read().splitlines()
        except OSError:
            _src_cache[path] = []
    ls = _src_cache[path]
    return ls[line - 1] if 0 < line <= len(ls) else ""


def classify_panic(msg):
    m = re.match(r"panicked at (\S+?):(\d+):(\d+):\n?(.*)", msg, re.S)
    if not m:
        return ("panic", "unknown")
    path, line, text = m.group(1), int(m.group(2)), m.group(4)
    if path.endswith("rustemo_actions.rs") and "ParseIntError" in text:
        return ("panic", "intConst")
    if "Separator modifier is supported only" in text:
        return ("panic", "modifiersAssert")
    if "Parenthesized groups are not implemented" in text:
        return ("panic", "groupExpect")
    if path.endswith("grammar/builder.rs"):
        if "not yet implemented" in text:
            return ("panic", "greedyTodo")
        src = src_line(path, line) + src_line(path, line - 1) + src_line(path, line + 1)
        here = src_line(path, line)
        if "Option::unwrap()" in text:
            if '"AUG"' in here:
                return ("panic", "augUnwrap")
            if "start_rule_name" in here or "start_rule_name" in src_line(path, line - 1):
                return ("panic", "startUnwrap")
            if "gsymbol" in here:
                return ("panic", "gsymbolUnwrap")
        if "index out of bounds" in text and "rules[0]" in here:
            return ("panic", "rules0")
        if "not created in production" in text:
            return ("panic", "strConstUnresolved")
        if "index out of bounds" in text or "checked_sub" in src:
            return ("panic", "reachIndex")
        return ("panic", "builder:" + here.strip()[:40])
    if path.endswith("grammar/mod.rs") or path.endswith("index.rs"):
        return ("panic", "reachIndex")
    return ("panic", "other:" + os.path.basename(path))


def impl_norm(ans):
    """answer of the F job -> ('ok', [records]) | ('err', kind, hexname, prod) | ('panic', site) | ('hang',)"""
    f = ans.split(" ", 2)
    if len(f) < 2 or f[0] != "front":
        return ("harness", ans[:40])
    if f[1] == "ok":
        return ("ok", gt.canon_records(f[2]))
    if f[1] == "err":
        return classify_err(unhx(f[2]).decode(errors="replace"))
    if f[1] == "panic":
        return classify_panic(unhx(f[2].split(" ")[0]).decode(errors="replace"))
    if f[1] == "timeout":
        return ("hang",)
    return ("harness", ans[:40])


def impl_norm_g(ans):
    """fallback while vdyn has no `F` job: the full `G` job; table-level failures are unobservable here"""
    f = ans.split(" ", 2)
    if f[0] != "dump":
        return ("harness", ans[:40])
    if f[1] == "ok":
        recs = [r for r in gt.canon_records(f[2]) if r.split(" ")[0] in ("grammar", "term", "nonterm", "prod")]
        return ("ok", recs + ["end"])
    if f[1] == "err":
        cls, msg = f[2].split(" ", 1)
        msg = unhx(msg).decode(errors="replace")
        if cls in ("infinite-recursion", "no-recognizer", "conflicts") or msg.startswith("Error:"):
            return ("unobservable", cls)
        return classify_err(msg)
    if f[1] == "panic":
        r = classify_panic(unhx(f[2].split(" ")[0]).decode(errors="replace"))
        return ("unobservable", r[1]) if r[1].startswith("other:") else r
    if f[1] == "timeout":
        return ("hang",)
    return ("harness", ans[:40])


def model_norm(ans):
    f = ans.split(" ", 1)
    if f[0] == "ok":
        return ("ok", gt.canon_records(f[1]))
    if f[0] == "err":
        k = f[1].split(" ")
        return ("err", k[0], k[1], k[2])
    if f[0] == "panic":
        return ("panic", f[1])
    return ("driver", ans[:60])


def same(impl, model):
    if impl[0] == "err" and model[0] == "err" and model[1] == "inttoobig":
        return impl[1] == "syntax"          # repaired variant: the literal no longer lexes
    return impl == model


# ---------------------------------------------------------------------------------------------
# cases
# ---------------------------------------------------------------------------------------------

class Case:
    def __init__(self, spec=None, text=None, tag=""):
        self.spec = spec
        self.text = gt.render_text(spec) if spec is not None else text
        self.ast = gt.render_ast(spec) if spec is not None else None
        self.tag = tag or (spec.tag if spec is not None else "raw")
        self.impl = None
        self.model = None
        self.classes = []
        self.lang = None

    def describe(self):
        return {"grammar": self.text, "ast": self.ast, "tag": self.tag,
                "impl": summary(self.impl), "model": summary(self.model), "classes": self.classes}


def summary(n):
    if n is None:
        return None
    if n[0] == "ok":
        return "ok " + " | ".join(n[1])
    return " ".join(str(x) for x in n)


def generate(rng, n):
    cases = []
    fams = [("sugar", 0.16, lambda: gt.gen_sugar(rng, clash=False)),
            ("sugar-lr", 0.06, lambda: gt.gen_sugar_lr(rng)),
            ("sugar-clash", 0.08, lambda: gt.gen_sugar(rng, clash=True)),
            ("meta", 0.16, lambda: gt.gen_meta(rng, assoc_clash=False)),
            ("meta-any", 0.08, lambda: gt.gen_meta(rng)),
            ("inline", 0.12, lambda: gt.gen_inline(rng)),
            ("names", 0.12, lambda: gt.gen_names(rng)),
            ("layout", 0.08, lambda: gt.gen_layout(rng)),
            ("broken", 0.14, lambda: gt.gen_broken(rng))]
    for name, share, f in fams:
        for _ in range(max(2, int(n * share))):
            cases.append(Case(spec=f()))
    for t in gt.RAW_TEXTS:
        cases.append(Case(text=t, tag="raw-syntax"))
    for t in gt.RAW_VALID:
        cases.append(Case(text=t, tag="raw-valid"))
    for cid, t in gt.RAW_KNOWN:
        c = Case(text=t, tag="raw-valid")
        c.classes = [cid]
        cases.append(c)
    return cases


def witness_cases():
    """fixed corpus: the witnesses of the findings and of every panic site (run first)"""
    T = lambda n: gt.Assign(gt.Ref(("n", n)))
    terms = gt.base_terms(3)
    R, A, Ref, As = gt.Rule, gt.Alt, gt.Ref, gt.Assign
    w = [
        ("F5-sep", gt.Spec([R("S", [A([As(Ref(("n", "Ta"), ("+", ["Tb"]))), T("Tc"), As(Ref(("n", "Ta"), ("+", None)))])])], terms)),
        ("F5-capture", gt.Spec([R("S", [A([As(Ref(("n", "A"), ("+", None))), T("A1")])]), R("A1", [A([T("Tb")])]),
                                R("A", [A([T("Ta")])])], terms)),
        ("F2", gt.Spec([R("E", [A([T("E"), T("Tb"), T("E")], [("k", "left")]), A([T("Ta")])], [("k", "right")])], terms)),
        ("F2-ok", gt.Spec([R("E", [A([T("E"), T("Tb"), T("E")], [("k", "right")]), A([T("Ta")])], [("k", "left")])], terms)),
        ("F18", gt.Spec([R("S", [A([As(Ref(("n", "EMPTY")), "p", "a"), T("Ta")])])], terms)),
        ("F9-int", gt.Spec([R("S", [A([T("Ta")])], [("i", "99999999999")])], terms)),
        ("F9-terminals-only", gt.Spec(None, terms)),
        ("F9-group", gt.Spec([R("S", [A([As(Ref(("G", "Ta Tb"))), T("Ta")])])], terms)),
        ("F9-group-rep", gt.Spec([R("S", [A([As(Ref(("G", "Ta Tb"), ("+", None))), T("Ta")])])], terms)),
        ("F9-greedy", gt.Spec([R("S", [A([As(Ref(("n", "Ta"), ("*!", None))), T("Tb")])])], terms)),
        ("F9-modifiers", gt.Spec([R("S", [A([As(Ref(("n", "Ta"), ("+", ["Tb", "Tc"])))])])], terms)),
        ("kind-not-ident", gt.Spec([R("S", [A([T("Ta")], [("K", "A.b")])])], terms)),
        ("kind-inherited-keyword", gt.Spec([R("S", [A([T("Ta")]), A([T("Tb")], [("K", "Ok1")])], [("K", "fn")])], terms)),
        ("kind-string", gt.Spec([R("S", [A([T("Ta")], [("u", "kind", ("s", "x y"))])])], terms)),
        ("stop-ref", gt.Spec([R("S", [A([T("Ta"), T("STOP")])])], terms)),
        ("stop-sugar", gt.Spec([R("S", [A([T("Ta"), As(Ref(("n", "STOP"), ("*", None)))])])], terms)),
        ("stop-sep", gt.Spec([R("S", [A([As(Ref(("n", "Ta"), ("+", ["STOP"])))])])], terms)),
        ("stop-named", gt.Spec([R("S", [A([As(Ref(("n", "STOP")), "p", "x"), T("Ta")])])], terms)),
        ("reserved-ref", gt.Spec([R("S", [A([T("Ta"), T("AUG")])])], terms)),
        ("reserved-ref-sugar", gt.Spec([R("S", [A([T("Ta"), As(Ref(("n", "AUG"), ("*", None)))])])], terms)),
        ("reserved-ref-sep", gt.Spec([R("S", [A([As(Ref(("n", "Ta"), ("+", ["AUGL"])))])])], terms)),
        ("reserved-ref-named", gt.Spec([R("S", [A([As(Ref(("n", "AUG")), "p", "x"), T("Ta")])])], terms)),
        ("reserved-ref-terminal", gt.Spec([R("S", [A([T("Ta"), T("AUG")])])], terms + [gt.TermRule("AUG", ("S", "x"))])),
        ("reserved-rule", gt.Spec([R("S", [A([T("Ta")])]), R("AUG", [A([T("Tb")])])], terms)),
        ("helper-capture-before", gt.Spec([R("S", [A([T("X"), T("A1")])]), R("A1", [A([T("Tb")])]),
                                           R("X", [A([As(Ref(("n", "A"), ("+", None)))])]), R("A", [A([T("Ta")])])], terms)),
        ("helper-capture-terminal", gt.Spec([R("S", [A([As(Ref(("n", "Ta"), ("*", None))), T("Tb")])])],
                                            terms + [gt.TermRule("Ta1", ("S", "z"))])),
        ("dup-terminal", gt.Spec([R("S", [A([T("Ta")])])], terms[:1] + [gt.TermRule("Ta", ("S", "b"))])),
        ("dup-terminal-5", gt.Spec([R("S", [A([T("Ta")])])], [gt.TermRule("Ta", ("S", c)) for c in "abcde"])),
        ("self-helper", gt.Spec([R("S", [A([T("A1"), T("B")])]), R("A1", [A([T("Tb"), As(Ref(("n", "A"), ("+", None)))])]),
                                 R("A", [A([T("Ta")])]), R("B", [A([T("Ta")])])], terms)),
        ("doc-test", gt.Spec([
            R("S", [A([T("A"), As(Ref(("s", "some_term"))), T("B")], [("i", "5")]), A([T("B")], [("k", "nops")])],
              [("i", "15"), ("k", "nopse")]),
            R("A", [A([T("B")], [("k", "nopse"), ("u", "bla", ("i", "5"))]), A([T("B")], [("i", "7")])], [("u", "bla", ("i", "10"))]),
            R("B", [A([T("some_term")], [("k", "right")]), A([T("some_term")])], [("k", "left")])],
            [gt.TermRule("some_term", ("S", "some_term"))])),
    ]
    out = []
    for tag, spec in w:
        spec.tag = "witness:" + tag
        out.append(Case(spec=spec))
    return out


# ---------------------------------------------------------------------------------------------
# running
# ---------------------------------------------------------------------------------------------

def run_impl(cases):
    groups = [["F " + hx(c.text)] for c in cases]
    answers = common.run_vdyn(groups, tag="c09impl")
    if answers and any(a[0].startswith("unknown-job") for a in answers):
        groups = [["G LR LALR_PAGER - - - - - - - - " + hx(c.text)] for c in cases]
        answers = common.run_vdyn(groups, tag="c09impl")
        for c, a in zip(cases, answers):
            c.impl = impl_norm_g(a[0])
        return "G"
    for c, a in zip(cases, answers):
        c.impl = impl_norm(a[0])
    return "F"


def run_model(cases, variant=os.environ.get("VERIF_FRONT_VARIANT", "repo")):
    cs = [c for c in cases if c.ast is not None]
    groups = [[f"front build {variant} {c.ast}", f"front class {variant} {c.ast}"] for c in cs]
    answers = common.run_model(groups, tag="c09model")
    for c, a in zip(cs, answers):
        c.model = model_norm(a[0])
        c.classes = [] if a[1] in ("-", "") else a[1].split(" ")


# ---------------------------------------------------------------------------------------------
# language oracle
# ---------------------------------------------------------------------------------------------

def language(prods, is_term, start, n):
    """all terminal strings of length <= n derivable from `start` (least fixpoint over string sets)"""
    syms = {l for l, _ in prods} | {s for _, r in prods for s in r}
    L = {s: ({(s,)} if is_term(s) else set()) for s in syms}
    L.setdefault(start, set())
    changed = True
    while changed:
        changed = False
        for l, rhs in prods:
            acc = {()}
            for s in rhs:
                nxt = set()
                for u in acc:
                    for v in L[s]:
                        if len(u) + len(v) <= n:
                            nxt.add(u + v)
                acc = nxt
                if not acc:
                    break
            if not acc <= L[l]:
                L[l] |= acc
                changed = True
    return L[start]


def lang_of_dump(g, n):
    prods, start = gt.bnf_of_dump(g)
    nt = g["nterms"]
    lang = language(prods, lambda s: s < nt, start, n)
    out = set()
    for w in lang:
        out.add("".join(unhx(g["terms"][s]["rec"][2:]).decode() for s in w))
    return out


def lang_of_spec(spec, n):
    """language of a sugar-free spec, straight from the spec (no compiler involved)"""
    terms = {t.name: t.recog[1] for t in spec.terms}
    prods = []
    for r in spec.rules:
        for alt in r.alts:
            prods.append((r.name, [a.ref.sym[1] for a in alt.assigns if a.ref.sym != ("n", "EMPTY")]))
    lang = language(prods, lambda s: s in terms, spec.rules[0].name, n)
    return {"".join(terms[s] for s in w) for w in lang}


def lang_eligible(c):
    s = c.spec
    if s is None or not s.tag.startswith("sugar") or c.impl is None or c.impl[0] != "ok":
        return False
    return all(t.recog is not None and t.recog[0] == "S" and len(t.recog[1]) == 1 for t in s.terms)


def language_oracle(rep, cases, maxlen, n_parse):
    """returns list of (case, tag, why)"""
    bad = []
    elig = [c for c in cases if lang_eligible(c)]
    parse_cases = []
    for c in elig:
        g = gt.parse_records(" | ".join(c.impl[1]))
        try:
            ref = lang_of_spec(gt.expand(c.spec), maxlen)
            got = lang_of_dump(g, maxlen)
        except (KeyError, IndexError) as e:
            bad.append((c, "language", f"grammar of the dump is not interpretable: {e!r}"))
            continue
        rep.count("language_compared")
        rep.count("language_strings", len(ref))
        c.lang = ref
        if ref != got:
            d = sorted(ref ^ got, key=lambda w: (len(w), w))[:4]
            bad.append((c, "language", f"sentences up to length {maxlen} differ from the documented expansion, e.g. "
                                       f"{[(w, 'documented' if w in ref else 'compiled') for w in d]}"))
        parse_cases.append(c)
    # really parse with the LR parser the compiler builds (only conflict-free grammars are driven)
    parse_cases.sort(key=lambda c: 0 if c.tag == "sugar-lr" else 1)
    parse_cases = parse_cases[:n_parse]
    if parse_cases:
        groups = []
        for c in parse_cases:
            alpha = sorted({t.recog[1] for t in c.spec.terms})
            c.words = ["".join(w) for k in range(maxlen + 1) for w in itertools.product(alpha, repeat=k)]
            # prefer_shifts and prefer_shifts_over_empty off: a grammar that needs conflict resolution keeps its
            # conflicts and is skipped (a resolved table recognises a sub-language; that is C05's subject)
            groups.append(["G LR LALR_PAGER 0 0 - - - - - - " + hx(c.text)] + [f"P LR 0 1 {hx(w)}" for w in c.words])
        answers = common.run_vdyn(groups, tag="c09parse")
        for c, ans in zip(parse_cases, answers):
            if not ans[0].startswith("dump ok"):
                rep.count("parse_oracle_skipped:" + " ".join(ans[0].split(" ")[1:3]))
                continue
            if any(a.startswith("parse skipped") for a in ans[1:2]):
                rep.count("parse_oracle_skipped:conflicts")
                continue
            rep.count("parse_oracle_grammars")
            for w, a in zip(c.words, ans[1:]):
                rep.count("parse_oracle_inputs")
                acc = a.startswith("parse ok")
                if a.startswith("parse panic") or a.startswith("parse timeout"):
                    continue        # C15's business
                if acc != (w in c.lang):
                    bad.append((c, "language", f"input {w!r} is {'accepted' if acc else 'rejected'} by the compiled parser, "
                                               f"the documented expansion says the opposite"))
                    break
    return bad


# ---------------------------------------------------------------------------------------------
# evaluation
# ---------------------------------------------------------------------------------------------

PLAIN_FAMILIES = ("sugar", "sugar-lr", "sugar-clash", "meta", "layout")      # specs of these families are valid grammars

# which finding classes (driver `front class`) explain which oracle failure tags
EXPLAINS = {
    "bigInt": {"panic:intConst"},
    "noRules": {"panic:augUnwrap"},
    "group": {"panic:groupExpect", "panic:gsymbolUnwrap"},
    "greedy": {"panic:greedyTodo"},
    "modifiers": {"panic:modifiersAssert"},
    "emptySurvives": {"empty", "alternatives", "helper-shape", "language"},
    "assocOverride": {"assoc"},
    "sepClash": {"helper-shape", "helper-shared", "language"},
    "helperCapture": {"helper-shape", "helper-shared", "alternatives", "consistency", "resolve", "start", "language",
                      "panic:reachIndex"},
    "dupTerminal": {"consistency", "terminals", "resolve", "inline", "panic:reachIndex", "start", "helper-shape"},
    "ruleIsTerminal": {"resolve", "start", "layout", "helper-shape"},
    "reservedRule": {"alternatives", "start", "layout", "consistency", "resolve"},
    "text:bool-false": {"spurious-diagnostic"},
}


def finding_for(findings, classes, tag):
    """key of the listed known finding whose class contains the case and explains the failure"""
    for f in findings:
        if f.get("status") != "known" or f.get("property") not in ("C09", "C16"):
            continue
        for cid in f.get("class_id", []):
            if cid in classes and tag in EXPLAINS.get(cid, set()):
                return f
    return None


def spec_has_undefined(spec):
    """(undefined symbol, undefined inline string) present in the spec — must be diagnosed"""
    if spec is None or spec.rules is None:
        return False
    terms = spec.terms or []
    names = {"EMPTY", "STOP", "AUG", "AUGL"} | {t.name for t in terms} | {r.name for r in spec.rules}
    strings = {t.recog[1] for t in terms if t.recog is not None and t.recog[0] == "S"}
    for r in spec.rules:
        for alt in r.alts:
            for a in alt.assigns:
                if a.ref.sym[0] == "n" and a.ref.rep is None and a.ref.sym[1] not in names:
                    return True
                if a.ref.sym[0] == "s" and a.ref.sym[1] not in strings:
                    return True
    return False


def legit_err(spec, impl):
    """documented reasons to reject a spec of the plain families"""
    if impl[1] == "prio99":
        for t in spec.terms or []:
            d = gt.meta_merge(t.metas)
            if "priority" in d and d["priority"][0] == "i" and int(d["priority"][1]) > 99:
                return True
    return False


def evaluate(rep, cases, proofs_ok, findings, mode, tier):
    corr_breaks = []
    failures = []          # (case, tag, why)
    for c in cases:
        rep.count("family:" + c.tag.split(":")[0].rstrip("0123456789"))
        if c.impl is None:
            continue
        rep.count("impl_class:" + c.impl[0] + (":" + c.impl[1] if c.impl[0] in ("err", "panic") else ""))
        if c.impl[0] == "unobservable":
            rep.count("unobservable_without_F_job")
            continue
        # correspondence
        if c.model is not None:
            rep.count("correspondence_compared")
            if not same(c.impl, c.model):
                corr_breaks.append(c)
        # oracle (3): totality
        if c.impl[0] in ("panic", "hang"):
            failures.append((c, "panic:" + (c.impl[1] if c.impl[0] == "panic" else "hang"),
                             f"the front end panics ({summary(c.impl)})"))
            continue
        if c.spec is None:
            if c.tag == "raw-syntax" and c.impl[0] != "err":
                failures.append((c, "syntax", "a text outside the grammar language is accepted"))
            if c.tag == "raw-valid" and c.impl[0] != "ok":
                failures.append((c, "spurious-diagnostic", f"valid text rejected: {summary(c.impl)}"))
            continue
        # oracle (1): structure
        if c.impl[0] == "ok":
            if spec_has_undefined(c.spec):
                failures.append((c, "missing-diagnostic", "an undefined symbol / string literal is accepted"))
                continue
            g = gt.parse_records(" | ".join(c.impl[1]))
            try:
                bad = gt.doc_check(c.spec, g)
            except Exception as e:      # malformed dump
                bad = [("consistency", f"dump not interpretable: {e!r}")]
            rep.count("doc_checked")
            seen = set()
            for tag, why in bad:
                if tag not in seen:
                    seen.add(tag)
                    failures.append((c, tag, why))
        elif c.impl[0] == "err" and c.tag in PLAIN_FAMILIES and not c.classes \
                and not legit_err(c.spec, c.impl):
            failures.append((c, "spurious-diagnostic", f"a valid grammar is rejected: {summary(c.impl)}"))
    # oracle (2): language
    failures += language_oracle(rep, cases, 4 if tier == "quick" else 5, 120 if tier == "quick" else 600)
    # attribute failures to known findings
    real = []
    hit = {}
    for c, tag, why in failures:
        f = finding_for(findings, c.classes, tag)
        if f is not None:
            rep.count("known:" + f["key"])
            hit.setdefault(f["key"], f)
        else:
            real.append((c, tag, why))
    for key, f in hit.items():
        rep.known_finding(key, f["what"])
    real.sort(key=lambda x: len(x[0].text))
    rep.real = real
    shown = set()
    for c, tag, why in real:
        if tag in shown or len(shown) >= 3:
            continue
        shown.add(tag)
        rep.violation(dict(c.describe(), why=why, failure=tag, kind="impl!=oracle"))
    if not real:
        if corr_breaks:
            c = min(corr_breaks, key=lambda c: len(c.text))
            rep.violation(dict(c.describe(), why="correspondence corr:front broken (Lean model of the grammar builder != "
                                                 "real front end); the property oracles found no failing input",
                               kind="impl!=model", n_breaks=len(corr_breaks)), no_input=True)
        elif not proofs_ok:
            rep.violation({"why": f"Lean obligations of {PROP_MODULE} no longer check",
                           "obligations": [o for o in rep.obligations if not o[1]]}, no_input=True)
    rep.counters["corr_breaks"] = len(corr_breaks)
    rep.counters["oracle_failures"] = len(real)
    rep.counters["evaluations"] = len([c for c in cases if c.impl is not None])
    rep.counters["distinct_nontrivial"] = len({c.text for c in cases})
    for c in cases:
        if c.impl is not None and c.impl[0] == "ok" and c.spec is not None:
            rep.sample({"grammar": c.text, "impl": summary(c.impl)[:300]})
    return real, corr_breaks


def load_all_findings():
    fs = list(common.load_findings())
    extra = os.environ.get("VERIF_EXTRA_FINDINGS")
    if extra and os.path.exists(extra):
        fs += json.load(open(extra))["findings"]
    return fs


def replay_known(rep, findings):
    """each listed C09/C16-builder witness must still fail (else: note that it no longer reproduces)"""
    known = [f for f in findings if f.get("status") == "known" and f.get("property") in ("C09",) and "witness" in f]
    fixed = [f for f in findings if f.get("status") == "fixed" and f.get("property") in ("C09",) and "witness" in f]
    return known, fixed


def run(rep, tier, seed):
    rng = random.Random(seed)
    proofs_ok = lean_obligations(rep, PROP_MODULE)
    ok, log = build_harness()
    if not ok:
        rep.oblige("cargo build harness/dyn against /repo", False, log[-1500:])
        rep.violation({"broken": "harness build", "log": log[-3000:]}, no_input=True)
        return
    n = 6000 if tier == "quick" else 80000
    cases = witness_cases() + generate(rng, n)
    check(rep, cases, proofs_ok, tier)


def check(rep, cases, proofs_ok, tier):
    findings = load_all_findings()
    mode = run_impl(cases)
    run_model(cases)
    variant = common.run_model([["front variant"]], tag="c09variant")[0][0]
    rep.notes.append(f"front-end job: {mode}; model variant (Front.repoVariant): {variant}")
    if mode == "G":
        rep.notes.append("vdyn has no F job yet: fell back to the full G job; table-level rejections are unobservable")
    rep.cov["rule"] = ("abstract grammar specs rendered to text (real RustemoParser + GrammarBuilder) and to the File AST "
                       "(Lean Front.build): families sugar (? * + [sep] on terminals/nonterminals/inline strings, named and "
                       "bool assignments, repeated identical uses), sugar-clash (near-identical uses), meta (priorities, "
                       "left/right/reduce/shift, nops/nopse, dynamic, kinds, user keys int/float/bool/string on rules, "
                       "productions, terminals), inline (declared/undeclared string literals, duplicate strings), names "
                       "(helper-name clashes, Rust keywords, dotted names, keyword-prefixed names, builder-internal names, "
                       "duplicate rules), layout, broken (undefined symbols, duplicate terminals, terminals-only, huge and "
                       "non-ASCII integers, groups, greedy operators, several modifiers, STOP/EMPTY misuse, self recursion), "
                       "raw syntax errors; distinct = grammar text")
    evaluate(rep, cases, proofs_ok, findings, mode, tier)
    rep.assumptions += ["the text->AST step is the bootstrapped rustemo parser (an instance of C15); it is covered by the "
                        "correspondence diff, not modelled",
                        "names are ASCII (the Name token of the grammar language); syn 1.0 keyword list for check_identifier",
                        "imports are copied through by the builder and not modelled"]


def replay(rep, path):
    p = json.load(open(path))
    build_harness()
    if p.get("ast"):
        spec = gt.spec_of_ast(p["ast"])
        spec.tag = p.get("tag", "replay")
        c = Case(spec=spec)
        c.text = p["grammar"]          # the very text of the failing case
    else:
        c = Case(text=p["grammar"], tag=p.get("tag", "replay"))
    check(rep, [c], True, "quick")
