"""Shared case engine for the LR-runtime properties (C01, C02, C12, C13, C14, C15):
generate grammars+inputs, run the real compiler+runtime (harness/dyn) and the Lean model driver,
diff the two answer streams (Tie A) and hand every implementation answer to property oracles."""
import random

from common import hx, unhx, run_vdyn, run_model
from gram import Gram, Oracle, random_grammar, all_strings, random_sentence, mutate, earley_prefix
import treeparse as tp


class Case:
    def __init__(self, text, settings, inputs, gram=None, tag=""):
        self.text = text                # grammar text
        self.settings = settings        # list of 10 strings: algo tt ps pse ms lm go partial skipws fancy
        self.inputs = inputs            # list of (algo 'LR'|'GLR', partial '0'|'1', input str, meta)
        self.gram = gram
        self.tag = tag
        self.dump = None
        self.dump_ans = None
        self.results = []               # impl answers (without matrix)
        self.matrices = []
        self.model = []                 # model answers
        self.model_load = None

    def jobs(self):
        js = ["G " + " ".join(self.settings) + " " + hx(self.text)]
        for (algo, partial, inp, _m) in self.inputs:
            prev = (" " + hx(_m["prev"])) if isinstance(_m, dict) and _m.get("prev") is not None else ""
            if isinstance(_m, dict) and _m.get("file"):
                prev = (prev or " -") + " F"
            js.append(f"P {algo} {partial} {getattr(self, 'max_trees', 64)} {hx(inp)}{prev}")
        return js

    def describe(self, k=None):
        d = {"grammar": self.text, "settings": " ".join(self.settings), "tag": self.tag}
        if k is not None:
            algo, partial, inp, meta = self.inputs[k]
            if isinstance(meta, dict) and meta.get("prev") is not None:
                d["parsed_before_with_the_same_parser_object"] = meta["prev"]
            if isinstance(meta, dict) and meta.get("file"):
                d["also_parsed_through_parse_file"] = True
            d.update({"algo": algo, "partial": partial, "input": inp, "input_hex": hx(inp),
                      "impl": self.results[k] if k < len(self.results) else None,
                      "model": self.model[k] if k < len(self.model) else None})
        return d


def run_cases(cases, model=True, extra_requests=None, parse_model=True):
    """Runs impl and model. extra_requests(case) -> list of extra driver request lines issued after
    `load` (answers stored in case.extra)."""
    groups = [c.jobs() for c in cases]
    answers = run_vdyn(groups)
    reqs = []
    req_cases = []
    for c, ans in zip(cases, answers):
        c.dump_ans = ans[0]
        c.results = []
        c.matrices = []
        if ans[0].startswith("dump ok "):
            c.dump = ans[0][len("dump ok "):]
        for a in ans[1:]:
            if a.startswith("parse "):
                body = a[len("parse "):]
                if " #" in body:
                    r, m = body.split(" #", 1)
                else:
                    r, m = body, ""
                c.results.append(r)
                c.matrices.append(m)
            else:
                c.results.append(a)
                c.matrices.append("")
        if model and c.dump is not None:
            rq = ["load " + c.dump]
            c.n_extra = 0
            if extra_requests:
                ex = extra_requests(c)
                rq += ex
                c.n_extra = len(ex)
            c.model_idx = []
            for k, ((algo, partial, inp, _m), mat) in enumerate(zip(c.inputs, c.matrices)):
                if not parse_model or c.results[k].startswith("skipped") or c.results[k] == "notable":
                    continue
                c.model_idx.append(k)
                if "@" in algo:
                    rq.append(f"lr {partial} {hx(inp)} {algo.split('@')[1]} #{mat}")
                else:
                    rq.append(f"{'glr' if algo == 'GLR' else 'lr'} {partial} {hx(inp)} #{mat}")
            c.nodup_idx = []
            if getattr(c, "want_nodup", False):
                # per-input certificate of C03_engine_no_duplicates_from_poss_facts on the model's result graph
                for k in c.model_idx:
                    algo, partial, inp, _m = c.inputs[k]
                    if algo == "GLR" and len(inp) <= 40:
                        c.nodup_idx.append(k)
                        rq.append(f"glr nodup {partial} {hx(inp)} #{c.matrices[k]}")
            c.lexdet_idx = []
            if getattr(c, "want_lexdet", False):
                # executable hypotheses that discharge `LexDet` (Props/C03Bytes.lean) for this table and input
                for k, ((algo, partial, inp, _m), mat) in enumerate(zip(c.inputs, c.matrices)):
                    if algo == "GLR" and partial == "0" and not c.results[k].startswith("skipped") and c.results[k] != "notable":
                        c.lexdet_idx.append(k)
                        rq.append(f"glr lexdet {hx(inp)} #{mat}")
            reqs.append(rq)
            req_cases.append(c)
    if model and reqs:
        outs = run_model(reqs)
        for c, o in zip(req_cases, outs):
            c.model_load = o[0]
            c.extra = o[1:1 + c.n_extra]
            c.model = ["skipped"] * len(c.inputs)
            for k, a in zip(c.model_idx, o[1 + c.n_extra:]):
                c.model[k] = a
            c.nodup = dict(zip(c.nodup_idx, o[1 + c.n_extra + len(c.model_idx):]))
            c.lexdet = dict(zip(c.lexdet_idx, o[1 + c.n_extra + len(c.model_idx) + len(c.nodup_idx):]))
    return cases


def add_file_mode(rng, cases, p=0.08):
    """with probability p an input is ALSO parsed through `parse_file` (written to a file first) by the harness, which
    compares tree (values by content, spans, layout) or error with `parse` on the same text and answers
    `ok FILE-MISMATCH ...` when they differ — every oracle then fails on that input (unparsable answer)"""
    for c in cases:
        for (algo, partial, inp, meta) in c.inputs:
            if isinstance(meta, dict) and "@" not in algo and rng.random() < p:
                meta["file"] = True
    return cases


def add_histories(rng, cases, p=0.25):
    """parser objects are reusable: with probability p an input is parsed by a parser object that parsed another input
    of the same case first (preferring one that is rejected after something was shifted); the expected answer is that
    of a fresh parser (the model is stateless), so any state leaking from one parse into the next shows up in every
    oracle and in the correspondence"""
    add_file_mode(rng, cases)
    for c in cases:
        if len(c.inputs) < 2:
            continue
        for (algo, partial, inp, meta) in c.inputs:
            if isinstance(meta, dict) and rng.random() < p:
                prev = rng.choice(c.inputs)[2]
                if len(prev) <= 40:
                    meta["prev"] = prev
    return cases


def apply_replay_history(c, p):
    if p.get("also_parsed_through_parse_file"):
        for (_, _, _, meta) in c.inputs:
            if isinstance(meta, dict):
                meta["file"] = True
    prev = p.get("parsed_before_with_the_same_parser_object")
    if prev is not None:
        for (_, _, _, meta) in c.inputs:
            if isinstance(meta, dict):
                meta["prev"] = prev


def confirm_timeouts(cases, budget_ms=60000, max_confirm=24, skip=None):
    """A 3 s watchdog cannot tell a slow parse (GLR on a long, highly ambiguous input; a loaded machine) from a hang.
    Every `timeout` answer is re-run alone with a long budget; the answer is replaced by what that run returns (so only
    a parse that still has not returned after `budget_ms` counts as a hang). At most `max_confirm` re-runs, shortest
    inputs first; the rest are marked `skipped-unconfirmed-timeout`."""
    import common
    todo = [(c, k) for c in cases for k, r in enumerate(c.results) if r.startswith("timeout") and not (skip and skip(c, k))]
    todo.sort(key=lambda ck: len(ck[0].inputs[ck[1]][2]))
    singles = []
    for c, k in todo[:max_confirm]:
        s = Case(c.text, c.settings, [c.inputs[k]], gram=c.gram, tag="confirm")
        if hasattr(c, "max_trees"):
            s.max_trees = c.max_trees
        singles.append(s)
    for c, k in todo[max_confirm:]:
        c.results[k] = "skipped-unconfirmed-timeout"
    if not singles:
        return 0
    old = common.ENV.get("VDYN_TIMEOUT_MS")
    common.ENV["VDYN_TIMEOUT_MS"] = str(budget_ms)
    try:
        answers = run_vdyn([s.jobs() for s in singles], tag="confirm")
    finally:
        if old is None:
            common.ENV.pop("VDYN_TIMEOUT_MS", None)
        else:
            common.ENV["VDYN_TIMEOUT_MS"] = old
    n = 0
    for (c, k), ans in zip(todo[:max_confirm], answers):
        a = ans[1] if len(ans) > 1 else "harness-crash"
        if a.startswith("parse "):
            a = a[len("parse "):].split(" #", 1)[0]
        if not a.startswith("timeout"):
            n += 1
        c.results[k] = a
    return n


def klass(ans):
    """outcome class of an answer line"""
    w = ans.split(" ", 1)[0]
    if w == "panic":
        return "panic"
    if w in ("timeout",):
        return "hang"
    return w


def same_answer(impl, model):
    if klass(impl) in ("panic", "hang"):
        return klass(impl) == klass(model)
    return impl == model


# --------------------------------------------------------------------------------------------
# generators
# --------------------------------------------------------------------------------------------

WS_ATOMS = [" ", "\n", "\t", "\r\n", " ", "\n"]
WS_ATOMS_UNI = WS_ATOMS + ["\u00a0", "\u2003"]


def gap(rng, atoms, pool):
    """a gap between tokens: one of the fixed pool entries, or (1 in 3) a run of 2-3 whitespace atoms in any order
    (`" \n"`, `"\t\n"`, `"\n \n"`, ...: runs that END in a newline after other characters matter for line/column)"""
    if rng.random() < 0.33:
        return "".join(rng.choice(atoms) for _ in range(rng.randint(2, 3)))
    return rng.choice(pool)


def render_input(rng, g, toks, ws="none"):
    """token names -> input string; ws: none|space|mixed"""
    chars = [g.terms[t] for t in toks]
    if ws == "none":
        return "".join(chars)
    if ws == "space":
        return " ".join(chars)
    if ws == "layout" and g.layout in ("comments", "nested"):
        pool = ["", " ", "\n", " // note\n", "//x\n ", "  ", " // nöte €\n", "//中\n"]
        if g.layout == "nested":
            pool += ["/* c */", " /* a /* b */ c */ ", "/**/", "/* ü€ */", " /* ä /* 中 */ é */ "]
            if rng.random() < 0.15:
                # an unterminated block comment: not layout, the input is then no sentence whatever follows
                pool += ["/* c ", "/*", " /* a /* b */ "]
    else:
        pool = ["", " ", "  ", "\n", "\t", " \n ", "\r\n", "\u00a0", "\u2003 "]
        if g.layout is not None:
            pool = ["", " ", "  ", "\n", "\t", " \n ", "\r\n"]
    out = ""
    atoms = None
    if ws == "mixed":
        atoms = WS_ATOMS if g.layout is not None else WS_ATOMS_UNI
    for c in chars:
        out += (gap(rng, atoms, pool) if atoms else rng.choice(pool)) + c
    out += rng.choice(pool[:3])
    return out


def bnf_cases(rng, n_grammars, tts=("LALR", "LALR_PAGER"), algo="LR", max_len=4, n_sent=8, n_mut=8,
              partial=("0",), ws=("none",), gen_kw=None, glr_scope=False, extra_settings=None, annot=False,
              allow_cyclic=False, generator=None):
    cases = []
    tries = 0
    while len(cases) < n_grammars * len(tts) and tries < n_grammars * 50:
        tries += 1
        g = (generator or random_grammar)(rng, **(gen_kw or {}))
        if g.undefined_symbols() or not g.all_productive():
            continue
        if glr_scope and not g.in_glr_scope():
            continue
        if not allow_cyclic and g.is_cyclic():
            continue
        alphabet = list(g.terms.keys())
        strings = []
        seen = set()

        def add(toks, kind):
            key = tuple(toks)
            if key in seen or len(toks) > 24:
                return
            seen.add(key)
            strings.append((list(toks), kind))
        if len(alphabet) ** max_len <= 400:
            for s in all_strings(alphabet, max_len):
                add(s, "enum")
        else:
            for s in all_strings(alphabet, max(1, max_len - 2)):
                add(s, "enum")
        for _ in range(n_sent):
            s = random_sentence(g, rng)
            if s is not None:
                add(s, "sentence")
                for _ in range(max(1, n_mut // max(1, n_sent))):
                    add(mutate(rng, s, alphabet), "mutation")
        if annot:
            from gram import annotate
            g = annotate(rng, g)
        text = g.render()
        for tt in tts:
            st = [algo, tt, "-", "-", "-", "-", "-", "-", "-", "-"]
            if extra_settings:
                es = extra_settings(rng) if callable(extra_settings) else extra_settings
                for k, v in es.items():
                    st[k] = v
            inputs = []
            for toks, kind in strings:
                for p in partial:
                    for w in ws:
                        inputs.append((algo, p, render_input(rng, g, toks, w), {"toks": toks, "kind": kind, "ws": w}))
            cases.append(Case(text, st, inputs, gram=g, tag="bnf"))
    return cases


def tokens_of_tree(t):
    return [l["kind"] for l in tp.leaves(t)]


# --------------------------------------------------------------------------------------------
# shared evaluation: correspondence + oracle + reporting
# --------------------------------------------------------------------------------------------

def evaluate(rep, cases, oracle, proofs_ok, prop_module, corr_name="corr:lr", in_scope=None,
             known_class=None, compare_model=True, max_report=3):
    """oracle(case) -> list of (input index or None, why) property failures on IMPLEMENTATION output.
    in_scope(case) -> bool (after dump); known_class(case, k, why) -> finding key or None."""
    corr_breaks = []
    failures = []
    distinct = set()
    for c in cases:
        if c.dump is None:
            rep.count("grammar_rejected:" + " ".join(c.dump_ans.split(" ")[1:3]))
            continue
        if in_scope and not in_scope(c):
            rep.count("out_of_scope")
            continue
        rep.count("grammars_in_scope:" + " ".join(c.settings[:2]))
        for (k, why) in oracle(c):
            key = known_class(c, k, why) if known_class else None
            if key:
                rep.count("known:" + key)
            else:
                failures.append((c, k, why))
        if compare_model:
            for k, (r, m) in enumerate(zip(c.results, c.model)):
                rep.count("impl_class:" + klass(r))
                if klass(r).startswith("skipped"):
                    continue
                rep.count("correspondence_compared")
                if not same_answer(r, m):
                    corr_breaks.append((c, k))
                distinct.add((c.text, " ".join(c.settings), c.inputs[k][2], c.inputs[k][1]))
        else:
            for k in range(len(c.results)):
                distinct.add((c.text, " ".join(c.settings), c.inputs[k][2], c.inputs[k][1]))
    rep.counters["distinct_nontrivial"] = len(distinct)
    rep.counters["evaluations"] = rep.counters.get("evaluations", 0) or len(distinct)
    shown = 0
    for c in cases:
        if c.dump is not None and c.results and shown < 3:
            k = len(c.inputs) // 2
            rep.sample({"grammar": c.text, "settings": " ".join(c.settings), "input": c.inputs[k][2],
                        "impl": c.results[k][:300]})
            shown += 1

    def size(f):
        c, k, _ = f
        return (len(c.text), len(c.inputs[k][2]) if k is not None else 0)
    failures.sort(key=size)
    for c, k, why in failures[:max_report]:
        rep.violation(dict(c.describe(k), why=why, kind="impl!=oracle"))
    if not failures:
        if corr_breaks:
            c, k = min(corr_breaks, key=lambda f: (len(f[0].text), len(f[0].inputs[f[1]][2])))
            rep.violation(dict(c.describe(k),
                               why=f"correspondence {corr_name} broken (Lean model != real runtime); the property "
                                   f"oracle found no failing input",
                               kind="impl!=model", n_breaks=len(corr_breaks)), no_input=True)
        elif not proofs_ok:
            rep.violation({"why": f"Lean obligations of {prop_module} no longer check",
                           "obligations": [o for o in rep.obligations if not o[1]]}, no_input=True)
    rep.counters["corr_breaks"] = len(corr_breaks)
    rep.counters["oracle_failures"] = len(failures)
    return failures, corr_breaks


def grammar_symbols(d):
    """(prods as (lhs, rhs), nterms) from a parsed dump"""
    return [(p["lhs"], p["rhs"]) for p in d["prods"]], d["nterms"]


def rec_string(d, kind):
    """declared string recognizer of terminal `kind` (None for regex / STOP)"""
    r = d["terms"][kind]["rec"]
    if r.startswith("S:"):
        return unhx(r[2:]).decode()
    return None


def parse_bnf(text):
    """inverse of Gram.render for replay files (no meta-data needed for the oracle)"""
    import re
    prods = []
    terms = {}
    mode = "rules"
    text = re.sub(r"\{[^}]*\}", "", text)
    for stmt in text.replace("\n", " ").split(";"):
        stmt = stmt.strip()
        if stmt.startswith("terminals"):
            mode = "terms"
            stmt = stmt[len("terminals"):].strip()
        if not stmt:
            continue
        l, r = stmt.split(":", 1)
        if mode == "rules":
            for alt in r.split("|"):
                syms = [s for s in alt.split() if s != "EMPTY"]
                prods.append((l.strip(), syms))
        else:
            terms[l.strip()] = r.strip().strip("'").replace("\\n", "\n")
    return Gram(prods, terms)


def toks_of_input(g, inp):
    inv = {c: t for t, c in g.terms.items()}
    return [inv[ch] for ch in inp if ch in inv]


def finding_cases(prop):
    """(known, fixed) witness cases of the committed known_findings.json for a property"""
    from common import load_findings
    known, fixed = [], []
    for f in load_findings():
        if f["property"] != prop or "witness" not in f or "grammar" not in f["witness"]:
            continue
        w = f["witness"]
        try:
            g = parse_bnf(w["grammar"])
            toks = toks_of_input(g, w.get("input", ""))
        except Exception:
            g, toks = None, []
        st = w["settings"].split(" ")
        inputs = [(w.get("algo", st[0]), w.get("partial", "0"), w.get("input", ""), {"toks": toks})]
        c = Case(w["grammar"], st, inputs, gram=g, tag="finding:" + f["key"])
        c.finding = f
        (known if f["status"] == "known" else fixed).append(c)
    return known, fixed


def replay_known(rep, prop, oracle, model=False):
    """Re-runs every listed known finding's witness: still failing -> KNOWN-FINDING line; the witnesses of
    fixed findings are returned so that the caller runs them first as ordinary corpus cases."""
    known, fixed = finding_cases(prop)
    if known:
        run_cases(known, model=model)
        for c in known:
            bad = oracle(c) if c.dump is not None else []
            if bad:
                rep.known_finding(c.finding["key"], c.finding["what"])
            else:
                rep.notes.append(f"known finding {c.finding['key']} no longer reproduces on its witness")
    return fixed
