#!/usr/bin/env python3
"""Regenerates MANIFEST.json from the table below (kept in one place so it always validates)."""
import json
import os

VERIF = os.path.dirname(os.path.dirname(os.path.abspath(__file__)))
props = [json.loads(l) for l in open(os.path.join(VERIF, "properties.jsonl"))]
ids = [p["id"] for p in props]

TRUST = ("Lean 4.33.0 kernel; axioms of every property theorem audited on each run ⊆ {propext, Classical.choice, Quot.sound}; "
         "Lean compiler/runtime for the executable driver; the verif hook's dump; harness/dyn and tools/*.py; "
         "regex engines and rustc are parameters, not modelled")

CLAIMS = {
    "C02": dict(
        category="proof",
        text=("Theorem C02_tree_is_derivation(_any_lexer): for every lexer, input and fuel, a run of the byte-level Lean model "
              "of LRParser::parse that ends in ok on a table passing the executable certificate Cert.structural returns a "
              "derivation tree from the start symbol whose leaves are exactly the shifted tokens (kernel-checked, no sorry). "
              "Tie B: Cert.structural (proved sound) is executed on the table dumped from the real compiler for every generated "
              "grammar, after conflict resolution. Tie A: model vs real LRParser on every input (outcome, tree, spans, layout). "
              "Oracle on implementation output: tree validity, leaves = tokens of the consumed input, partial-parse conservativity."),
        design_ref="5/C02",
        note=TRUST + "; table types LALR/LALR_PAGER; C02_partial_conservative: parse with partial parsing off returning ok implies the same result with it on (any table, any lexer); C02_construction_tree_is_derivation(_any_lexer) (Props/C04Construction, audited by the C04 check): the same conclusion for every well-formed grammar over the table the model of LRTable::new returns, no certificate run (model table = real table by the whole-table correspondence of C04/C05)",
        technique="Lean 4 proof over executable model + verified table certificate + differential correspondence"),
    "C04": dict(
        category="proof",
        text=("Theorems C04_cover_sound / C04_check_ok_means_verified: a passed Cover.check establishes FaithfulCompression — a relation "
              "between the canonical LR(1) automaton (Canon.build: textbook items/CLOSURE/GOTO, the definition, written independently of "
              "rustemo's algorithm) and the compiler's table that contains the start pair, is closed under the transitions of both "
              "automata on exactly the same symbols, relates only equal item cores, gives every item exactly the union of the canonical "
              "lookaheads (nothing lost, nothing invented) and every cell exactly the actions items+lookaheads prescribe (plus "
              "right-nulled reductions for LALR_RN). Tie B: the verified checker runs on the real dumped table of every generated and "
              "literature grammar x {LALR, LALR_PAGER, LALR_RN}; per table the comparison is complete. The construction itself is an "
              "executable Lean model (Model/Table.lean) whose WHOLE table equals the real dump on every generated grammar "
              "(structured families, Layout grammars; 0 differences); proved for all grammars with the decidable Table.gwf, all settings: "
              "construction_no_panic (every panic site of LRTable::new unreachable), construction_structural(_rn), "
              "construction_complete, construction_accept_on_stop and construction_lookaheads_exact (the lookahead sets are exactly the "
              "least solution of the LALR(1) equations over the automaton built, Pager splitting included). The consequence clauses are "
              "checked on the real compile entry point: process_grammar in LR mode reports conflicts exactly when the table of that "
              "type has an unresolved cell, for all three table types; 'deterministic => unambiguous' is C01_deterministic_is_unambiguous. "
              "PARTIAL: that this least solution equals the union of the canonical LR(1) lookaheads for ALL grammars "
              "(construction_covers) is not a theorem - universality of the cover property is by running the verified check on each "
              "generated grammar; 'LALR(1) => conflict-free under state splitting' is checked per grammar."),
        design_ref="5/C04",
        note=TRUST + "; Canon.build is the definition of canonical LR(1) (trusted, ~100 lines)",
        technique="Lean 4 verified certificate checker (canonical LR(1) cover) run on the real table"),
    "C14": dict(
        category="proof",
        text=("Proved for the LR parser: C14_roundtrip_layout (user Layout rule: leaves with their stored layout + trailing layout = "
              "consumed input, under the EXECUTABLE per-input hypothesis LayoutCert.check = static && notToken && idempotent && failStays, "
              "evaluated by the driver for every Layout input: holds on all 39857 generated ws/comments/nested inputs; where it is false "
              "the property IS false of the code: counterexample theorems for the recorded findings C14-N1, C14-N2), "
              "C14_layout_is_whitespace, C14_layout_is_layout_sentence (stored layout = yield of a derivation of the Layout nonterminal, "
              "tiled without gaps), C14_insertion_invariant(_path) (no Layout rule: an input aligned with the first along the shifted "
              "tokens is accepted with the same tree shape). And (C14_roundtrip): for the Lean model of LRParser::parse with the default string lexer, whitespace skipping "
              "on or off, any in-range recognizers, partial parsing on/off and every input, the leaves of the returned tree with their "
              "stored layout followed by the layout skipped before the end concatenate to exactly the consumed input; invariant over "
              "Context.layout_ahead, its preservation across re-lexing after a reduce, and the idempotence of whitespace skipping; "
              "certificates Cert.noShiftStop and Cert.structural run on the real table. PARTIAL - decided by oracle + correspondence only: "
              "insertion invariance under a Layout rule, and the GLR parser's trees. Tie A: layout and "
              "value slices of every leaf from the real parser vs the model; oracle: byte-level reconstruction. Two defects found by the "
              "oracle are repaired by fix: commits (stale layout_ahead after a shift; repeated layout parses)."),
        design_ref="5/C14",
        note=TRUST + "; LayoutCert.check is a hypothesis evaluated per input, not derived from the grammar; C14_construction_roundtrip (Props/C04Construction, audited by the C04 check): C14_roundtrip for every well-formed grammar over the table of the model construction, both certificate hypotheses discharged",
        technique="Lean 4 invariant proof (round trip) over executable byte-level model + differential correspondence + reconstruction oracle"),
    "C15": dict(
        category="proof",
        text=("PARTIAL. Proved (C15_glr_no_panic: no panic site of glr/parser.rs + gss.rs incl. the nested layout parser is reachable on "
              "tables passing Cert.glr + Cert.glrLayout, executed on every real table) and (C15_lr_no_panic, C15_lr_no_panic_any_lexer): the Lean model of LRParser::parse — in which every unwrap / "
              "index / split_off / expected[0] of lr/parser.rs, lr/builder.rs, error.rs is an explicit panic outcome — never reaches a "
              "panic site, for every input, every recognizer function, whitespace skipping or Layout rule, partial parsing on/off, the "
              "default string lexer and adversarial user lexers that ignore the expected set (unexpected kinds surface as Err), given "
              "the executable certificates Cert.structural and Cert.total on the real table (also for the layout automaton). Tie A: "
              "outcome class (ok/err/panic/timeout) of the real parsers under catch_unwind + watchdog vs the model on arbitrary "
              "Unicode (empty, multi-byte, control characters, long) with default and three adversarial lexers; Tie B: certificates "
              "executed on every real table. C15_lr_terminates: with non-empty tokens (NonEmptyTokens) and the executable certificate "
              "Cert.terminating (used productions: nullable closure, symbol ranking along unit derivations, state ranking along gotos on "
              "nullable nonterminals; executed on every real table; the F24 table fails it: C15_counterexample_cyclic_grammar) the LR "
              "parse - whitespace skipping or Layout rule incl. the nested layout parser, partial on/off - does not run out of fuel "
              "for any fuel >= Cert.termBound (linear in the input length). NOT proved: termination with user lexers and of the GLR "
              "engine (hangs there are decided by the watchdog; known "
              "findings F14: terminals matching the empty string, F24: cyclic grammars resolved by priorities); GLR with user-supplied "
              "lexers (oracle on the real parser only)."),
        design_ref="5/C15",
        note=TRUST + "; byte/char-boundary slicing is by construction of the recognizers (they return a prefix &str) and exercised by multi-byte inputs only",
        technique="Lean 4 invariant proofs (no panic site reachable; termination with an explicit fuel bound) + verified table certificates + differential outcome classes under catch_unwind/watchdog"),
    "C17": dict(
        category="proof",
        text=("Theorems C17_cli_maps_to_settings (for every environment and every Cli value the builder calls of rcomp's main, transcribed "
              "call by call, yield exactly the documented settings: negated flags, GLR overrides, explicit force), C17_cli_panics_exactly, "
              "C17_unique_names_order_free_partial with C17_closed_form_agrees (choice-name de-duplication is independent of HashMap "
              "iteration order whenever Types.clash = false) and the proved counterexample C17_counterexample_hash_order_leaks for the code "
              "as it was (repaired by a fix: commit; the code now computes the order-free closed form). Tie C: source inventory (hash "
              "iteration, env, globals, clocks, Cli fields, main builder calls) re-extracted each run against inventory/c17.json. Tie A: "
              "random rcomp command lines over every option -> Lean Cli.run -> settings vector -> real Settings API vs real rcomp binary; "
              "all written files byte-compared across CLI/API, K fresh processes, two in-process grammar orders."),
        design_ref="5/C17",
        note=TRUST + "; run-to-run byte equality itself is differential (processes, hash seeds), the theorem covers the logic that could break it",
        technique="Lean 4 proof (CLI->settings map, order-independence) + source inventory + differential byte comparison"),
    "C01": dict(
        category="proof",
        text=("Theorems C01_lr_accepts_exactly (Ok iff sentence, for every token string), C01_accepted_is_sentence, "
              "C01_sentence_is_accepted (JPL-style completeness by mutual structural recursion on the derivation tree: closure, "
              "transition and reduce completeness + determinism + re-lexing after every reduction) and "
              "C01_deterministic_is_unambiguous, for the token-level LR machine `tparse` (the shift/reduce/goto core that the byte-level "
              "model of LRParser::parse provably refines) over ANY table passing the executable certificate certC01 = structural + "
              "completeness (lookahead post-fixpoint with a verified FIRST/nullable post-fixpoint, reduce entries for every lookahead, "
              "at most one action per cell) + accept only on STOP. Tie B: the certificate is executed on the table dumped from the "
              "real compiler for every generated grammar x {LALR, LALR_PAGER} (passing it also means no disambiguation took effect). "
              "Tie A: tparse, the byte-level model and the real LRParser are run on every input (all strings up to a length bound, "
              "sentences, mutations) and compared with an independent membership oracle. Universality over grammars: the table construction is an executable Lean model "
              "(Model/Table.lean = LRTable::new) compared as a WHOLE with the real dump for every generated grammar (C04, C05: 0 "
              "differences) and C01_construction_accepts_exactly proves the statement for EVERY grammar (decidable Table.gwf, no Layout "
              "rule) whose model table is raw-deterministic, with no certificate run (construction_structural + construction_complete); "
              "the certificates are still executed on every real table; the step 'string "
              "lexer on distinct single-character terminals = offer the next token iff the state has an action for it' IS proved: "
              "C01_bytes_agree_with_tokens / C01_bytes_accept_exactly(_checked) — for tables passing the executable Cert.singleCharLexer "
              "(run on every table) and inputs passing charEnvOk (run on every input's real match matrix) the byte-level model "
              "LR.parse returns ok iff the token string is a sentence, errors at the same position as tparse."),
        design_ref="5/C01",
        note=TRUST + "; terminals are distinct single characters in C01's generated grammars (overlapping terminals are C06)",
        technique="Lean 4 proof (LR soundness + completeness over verified table certificates) + differential correspondence + membership oracle"),
    "C06": dict(
        category="proof",
        text=("Theorems C06_iterator_yields_survivors, C06_lr_acts_on, C06_glr_keeps, C06_glr_grammar_order: for EVERY sorted terminal "
              "list (key-sorted with ties in grammar order, finish flags as sort_terminals computes them), every matching function "
              "(any input, any recognizers) and every combination of most_specific / longest_match: the TokenIterator yields a terminal "
              "iff it matches, has the highest priority among the matching ones and under most-specific is the longest matching string "
              "recognizer (a regex only if no string of that priority matches); the LR parser acts on a survivor of maximal length if "
              "longest-match is on and finds none iff nothing survives; GLR with grammar order off keeps exactly those (each becomes a "
              "frontier head), with grammar order on at most one of them. C06_model_iterator_is_iter links the byte-level LR model's "
              "iterator; Lex.sortedOk certifies the sorted_terminals list of every state of the real table (the old packed key prio*1000+len "
              "made a 1000-byte string outrank the next priority: repaired in /repo, the model key is the pair (prio, len) and the "
              "`< 1000` hypothesis is gone, C06_long_string_does_not_outrank). The final grammar-order step is a theorem too: "
              "C06_iterator_order (the iterator yields in strictly increasing grammar index), C06_lr_picks_first_in_grammar (iff: the LR "
              "token is exactly the survivor passing the longest filter with the lowest grammar index), "
              "C06_glr_grammar_order_is_first (GLR with grammar order on keeps exactly that token). Tie A: tokens shifted by the real LR parser vs model; LR and GLR token "
              "sequences vs the documented rule written as an independent python specification, all 4 (LR) / 8 (GLR) switch "
              "combinations. One defect found by the oracle is repaired by a fix: commit (priority-group end flag)."),
        design_ref="5/C06",
        note=TRUST + "; regex terminals restricted to a class where python re and the Rust regex crate agree",
        technique="Lean 4 proof over all sorted terminal lists and matching functions + per-state certificate + documented-rule oracle"),
    "C07": dict(
        category="proof",
        text=("Proved over the executable models of BOTH engines, for one grammar g with two real tables (t_lr passing certC01, the "
              "right-nulled table passing Cert.glr and Cert.completeRN - all executed on every in-scope pair of every run) and the "
              "token-level lexer hypothesis LexDet: C07_glr_accepts_iff_lr_accepts (a GLR result with a tree implies the LR parser "
              "accepts; if the LR parser accepts, GLR returns no error and every uncut result returns a tree), "
              "C07_glr_trees_are_elisions_of_the_lr_tree (every tree any index of the GLR forest returns equals the LR tree modulo "
              "elided empty-yield tails), C07_glr_trees_share_the_lr_tree, C07_lr_tree_is_the_unique_derivation, "
              "C07_single_solution_is_lr_tree. PARTIAL: 'exactly one solution' as a COUNT needs no-duplicates of the engine (proved "
              "only from PossFacts, C03_engine_no_duplicates_from_poss_facts), span equality, Layout grammars (certC01 does not cover "
              "the layout automaton) and termination are decided by comparing the two real parsers on every generated input: Ok/Err, "
              "solutions() = 1, node-by-node equality of production, token kind/span/value and nonterminal span up to elided trailing "
              "empty children, incl. Layout grammars, parser-object reuse and parse_file. Known findings C07-N1 (token/layout "
              "collision: outside LexDet) and C07-N2 (priority on an EMPTY production evicts a right-nulled entry: exactly where "
              "Cert.completeRN fails) are recorded with witnesses."),
        design_ref="0/C07, notes/Glr.md",
        note=TRUST + "; scope = grammars whose LALR_PAGER items pass Table.rawDeterministic",
        technique="Lean 4 proof (LR = GLR modulo elision from engine soundness + completeness + uniqueness of the derivation) + verified table certificates + differential comparison of the real LR and GLR parsers"),
    "C09": dict(
        category="proof",
        text=("Lean model Front.build of grammar/builder.rs over the File AST (all of try_from_file: terminals, productions, sugar "
              "desugaring, inline-string and name resolution, meta-data inheritance, reachability), panic sites explicit. Theorems "
              "(Props/C09.lean, 38): for every AST outside the decidable classes {helper name equal to a rule or terminal name, two "
              "sugar uses differing only in separator, rule named EMPTY/AUG/AUGL} every alternative is exactly one production of its "
              "rule's nonterminal, in order, symbols in order, unnamed EMPTY removed, assignment names and flags kept, sugar denoted by "
              "its helper (C09_alternatives_are_productions, C09_empty_contributes_nothing); names and inline strings resolve to the "
              "declared symbols (C09_inline_strings_resolve, C09_all_symbols_resolved); the first rule is the start symbol and AUG -> "
              "start (C09_first_rule_is_start); per-key meta-data inheritance incl. associativity (C09_meta_inheritance, "
              "C09_assoc_inheritance_fixed); each ? * + [sep] helper derives exactly the documented language (C09_sugar_language_*) and "
              "helpers are shared iff the uses are identical (C09_helpers_shared); all indices consistent (C09_indices_consistent). "
              "Counterexample theorems for the recorded findings (F5, F5b, N3) and for the repaired ones on the pre-repair variant. "
              "Tie A: grammar records, error kind and panic site of the real parser+builder (hook dump_grammar_only) vs the model on "
              "rendered specs; oracle independent of the model: documented structure + language up to length 4-5 incl. real LR parses."),
        design_ref="0/C09, notes/C09.md",
        note=TRUST + "; text -> AST (the bootstrapped rustemo parser) is covered by the correspondence only; imports not modelled",
        technique="Lean 4 proof over executable model of the grammar front end + differential correspondence + documented-structure/language oracle"),
    "C10": dict(
        category="proof",
        text=("C10_holds : C10_statement Fixes.repo - for every grammar shape table of the default builder, every well-shaped parse "
              "tree (LR or GLR replay incl. right-nulled nodes, loc_info on/off) and the value the generated DefaultBuilder stack "
              "machine returns (C10_stack_machine_is_eval: run = eval), the string leaves of the value are exactly the content-token "
              "texts in input order (C10_tokens_in_order, C10_builder_returns_tokens_repo), vectors are in input order "
              "(C10_vec_in_order), optional parts are None iff the EMPTY alternative (C10_optional_none_iff_absent); false of the "
              "pre-repair variant (F7, C10_counterexample_right_vec; repaired by a fix: commit). Tie A: value correspondence between "
              "compiled generated parsers (real Settings chain, rustc, run on inputs) and the Lean evaluator; independent event oracle."),
        design_ref="0/C10, notes/C10.md",
        note=TRUST + "; well-shapedness of the tree is a hypothesis (C02/C03 own it); symbolTypes <-> real generator by correspondence",
        technique="Lean 4 proof over executable model of type inference + generated builder + differential correspondence on compiled parsers"),
    "C11": dict(
        category="proof",
        text=("PARTIAL. Proved: the model of the find_recursions DFS marks an edge on every reference cycle reachable from the start "
              "symbol (C11_box_breaks_cycles); the sizedness certificate is sound (C11_sized_sound) and run on the skeleton of every "
              "cell; arms of non-right-nulled productions are well typed under name resolution (C11_arms_typed_partial); each repaired "
              "finding (F22, F23, rule C, Option<Box<_>>) is well formed in the repo variant and was not before "
              "(C11_fixed_* / C11_counterexample_*). C11_statement Fixes.repo is proved FALSE (C11_counterexample_statement): F12 "
              "(non-Option right-nulled tails, GLR default builder) and F13 (generated name collisions) are recorded known findings. "
              "Tie: the skeleton model equals the real generated items and arm calls textually on every cell; Skel.wellFormed agrees "
              "with rustc on all cells; rustc acceptance itself is differential over {LR,GLR} x {Default,Generic,Custom} x "
              "{Arrays,Functions} x loc_info x fancy_regex x {default, custom lexer}."),
        design_ref="0/C11, notes/C11.md",
        note=TRUST + "; rustc's verdict is an oracle, not modelled; harness/astgen + tools/genbatch.py templates are trusted glue",
        technique="Lean 4 proof (cycle breaking, sizedness certificate) + textual skeleton correspondence + rustc as oracle on generated code"),
    "C16": dict(
        category="proof",
        text=("PARTIAL. Two stages of the compiler pipeline are modelled in Lean with every unwrap/expect/assert!/todo!/index as an "
              "explicit panic outcome and proved total for the code as it is: the grammar builder (C16_front_end_total: Front.build "
              "of any File AST returns a grammar or a diagnostic unless an integer literal does not fit u32 or a rule is its own "
              "repetition helper - the two recorded known findings, with proved witnesses C16_front_end_open_panics; "
              "C16_builder_output_safe: no production references STOP and every production kind is a Rust identifier) and conflict "
              "resolution of a cell (C16_resolution_total). Not modelled: the parser of the grammar language (an instance of C15), "
              "item-set construction, code generators - decided by the differential run only: the real Settings::process_grammar "
              "under catch_unwind + watchdog on every .rustemo file of the repository, hand-written broken/odd texts and token- and "
              "byte-level mutations x {LR,GLR} x table types x prefer-shift settings x builders x layouts. Tie A for the builder is "
              "C09's correspondence (error kind and panic site); Tie C: inventory of all panic-capable sites of the compiler crate "
              "(inventory/c16.json). Seven panics found were repaired by fix: commits; three classes are recorded known findings."),
        design_ref="0/C16",
        note=TRUST + "; totality of the table construction and of the generators is not a theorem",
        technique="Lean 4 totality proofs for the modelled stages (builder, conflict resolution) + panic-site inventory + differential run under catch_unwind"),
    "C08": dict(
        category="proof",
        text=("Theorems C08_arrays_faithful, C08_functions_faithful, C08_no_error_in_cells, C08_layouts_agree, C08_layouts_agree_run (LR "
              "runtime model), C08_enum_order, C08_arrays_dimensions: for every grammar and table satisfying the decidable Gen.WF "
              "(evaluated on every dump of the real compiler), the table-bearing code written by both part generators (nested arrays, "
              "per-state functions) answers every (state, token) action query, every (state, nonterminal) goto query and every "
              "expected-token query exactly as the computed table, including order, padding invisibility, panic on undefined goto and "
              "exhaustive matches; the two layouts agree on every query and give identical LR runs on every input; enum variant order "
              "equals table order (ProdKind skipping AUG/AUGL) and From<ProdKind> maps each production to its left-hand side. Ties: syn "
              "extraction of the real generated file compared with the rendered Lean model incl. the constant impl text; every query "
              "put to COMPILED generated parsers of both layouts x LR/GLR compared with the dump and with the Lean evaluators; layouts "
              "compared on parses. Outside the statement: grammars whose generated enums repeat a variant name (hypothesis namesOk, "
              "C08_namesOk_needed); GLR run equality is differential only."),
        design_ref="5/C08",
        note=TRUST + "; rustc compiles the generated parsers in the behaviour-level tie; syn/prettyplease text extraction is trusted",
        technique="Lean 4 proof over an abstract syntax of the generated table code + code-level and compiled behaviour-level correspondence"),
    "C12": dict(
        category="proof",
        text=("Proved for the LR parser over every table passing the executable certificate certC12 = certC01 + Cert.viable "
              "(productive grammar, every dot-0 item anchored to a kernel item, non-empty target states; all run on every real table): "
              "C12_error_at_first_offending_token — if the parser reports an error with k tokens remaining then the consumed prefix "
              "w.take(|w|-k) is a viable prefix (some sentence continues it), w.take(|w|-k+1) is NOT (resp. w is no sentence when the "
              "lookahead is STOP), exactly that prefix was shifted and the top state has an empty cell for the lookahead; "
              "C12_no_early_error / C12_no_late_error / C12_shifted_iff_viable (LALR: reductions may precede the error, never a "
              "shift); C12_sentences_never_error, C12_nonsentence_not_accepted, C12_error_expected_nonempty; the same at the byte level "
              "of LR.parse for single-character lexers (C12_bytes_*: offset, expected list = terminals with a non-empty cell). Tie A: "
              "tparse, byte-level model and real LRParser on every input vs an independent Earley viable-prefix oracle (offset, "
              "line/column, expected list). GLR half (Props/C12Glr.lean, over the engine model Model/Glr.lean under Cert.glr + "
              "Cert.completeRN + Cert.viable, all executed on every real right-nulled table, and the token-level lexer hypothesis "
              "LexDet): C12_glr_sentences_never_error, C12_glr_ok_only_on_sentence (an Ok result has a non-empty forest and the tokens "
              "are a sentence), C12_glr_nonsentence_errors, C12_glr_error_at_first_offending_token (the error sits at the position "
              "after the layout before token k, the expected list is non-empty, tok[0..k) is a viable prefix, tok[0..k] is not / the "
              "input is no sentence at the end), C12_glr_error_index_is_first_offending (k is the length of the longest viable "
              "prefix); the engine model is tied to the real GlrParser by C03's correspondence, the real GLR errors are compared with "
              "the same oracle here. PARTIAL: termination (that a non-sentence eventually returns the error) is a theorem for LR with "
              "the default lexer only (C15_lr_terminates), a hypothesis for GLR; LexDet is DISCHARGED for single-character-terminal grammars with whitespace skipping, full "
              "parse, no Layout rule (Props/C03Bytes.lean: C12_glr_bytes(_ws)_* with executable hypotheses only - Cert.singleCharLexer, "
              "charEnvWsOk, knownToks, lexUniqueOk - evaluated by the driver per table and input, `glr lexdet`: 2326 of 3836 GLR inputs of a "
              "quick run; the rest has a Layout rule or bytes outside the alphabet) and a hypothesis elsewhere; the CONTENT of the GLR "
              "expected list is compared with the oracle only."),
        design_ref="5/C12",
        note=TRUST + "; scope: reduced grammars (every nonterminal productive) in C01/C03 scope",
        technique="Lean 4 proof (valid-prefix property of LR over verified table certificates) + differential correspondence + Earley viable-prefix oracle"),
    "C03": dict(
        category="proof",
        text=("The GLR engine is an executable Lean model (Model/Glr.lean: find_lookaheads incl. Layout rule and lexical filters, FIFO "
              "reduction queue, find_reduction_paths, right-nulled reductions, the fold of solutions, LIFO shifter, create_forest, "
              "make_error; every unwrap/index an explicit panic outcome). Proved: C03_engine_sound (table passing the executable "
              "Cert.glr; ANY recognizers/lexer/layout/partial/fuel: every tree the forest returns is a derivation tree from the start "
              "symbol modulo elided empty-yield tails, and its leaves are exactly the tokens shifted, in order); "
              "C03_engine_complete (Cert.glr + Cert.completeRN + token-level lexer hypothesis LexDet: for a sentence with derivation "
              "tree `full` the parse returns no error and some index returns a tree equal to `full` modulo elision - via the "
              "Scott-Johnstone reduction-closure lemma proved for THIS implementation's queue order and fold, "
              "C03_engine_reduction_closure); C03_engine_no_panic_certified; C03_engine_forest_is_erasure / _forest_wf; and for "
              "every well-formed SPPF C03_forest_enum / _by_index_is_all / _iteration_is_all (each tree exactly once by index and by "
              "iteration, None from solutions() on). Tie B: Cert.glr, Cert.glrLayout, Cert.completeRN and the RN cover certificate are "
              "executed on every real table. Tie A: engine model vs real GlrParser on every input (solutions, every tree with spans, "
              "SPPF sharing, error position and expected set), real SPPF loaded into the enumeration model. No duplicates: C03_engine_no_duplicates_from_poss_facts (two different indices "
              "never give elisions of one derivation) holds given PossFacts + repetition-free roots of the result graph, which the driver "
              "evaluates as a Bool (Glr.possFactsB, soundness possFactsB_sound) on the model's result of EVERY input (`glr nodup`, "
              "per-input certificate; the model's graph is tied to the real SPPF by the correspondence). PARTIAL: that the run "
              "establishes PossFacts for all inputs is not a theorem (the coarse statement with Tree.EqElide is proved FALSE); LexDet is "
              "discharged from executable certificates for single-character terminals, full parse, no Layout rule "
              "(C03_bytes(_ws)_engine_complete, Props/C03Bytes.lean; lexDet_of_singleChar(_ws)), otherwise LexDet is a hypothesis (lexically ambiguous inputs are inside soundness/no-panic/"
              "correspondence only); termination; cyclic SPPFs excluded (hasCut). Those parts are decided by the independent "
              "derivation counter/enumerator (token-level and character-level) on generated grammars x all strings up to a bound."),
        design_ref="0/C03, notes/Glr.md",
        note=TRUST + "; petgraph is modelled as arrays with index identity in the same edge order; usize overflow of solutions() not modelled",
        technique="Lean 4 proof (RNGLR soundness + completeness + no-panic for an executable model of the engine, forest enumeration) + verified table certificates + differential correspondence + independent derivation enumerator"),
    "C05": dict(
        category="proof",
        text=("The cell-level conflict-resolution algorithm (Lean transcription of calculate_reductions and max_prior_for_term, tied to "
              "the real compiler by recomputing every cell and shift priority of every state of every generated table; the S/R decision "
              "domain of 1728 combinations is exhaustive) equals the documented rule: C05_sr_matches_doc, C05_rr_matches_doc (all natural "
              "priorities, associativities, settings, nops/nopse), C05_never_invents, C05_resolution_total, C05_shift_prio_is_max, "
              "C05_cell_result / C05_order_independent (any number and order of candidates under PosOk/NoMixed). Proved for the code as "
              "repaired by three fix: commits (terminal-level associativity inverted; assert abort on three-way conflicts; EMPTY/EMPTY "
              "reductions silently evicted in LR) and proved false with replayed witnesses for the code as it was. The operator-grammar "
              "corollary is decided on samples (all priority/assoc assignments x strings, real LR runtime vs precedence climbing)."),
        design_ref="5/C05",
        note=TRUST + "; operator-precedence corollary sampled; mixed left/right three-way cells are order dependent (C05_counterexample_order_mixed) and only required to be pairwise justified",
        technique="Lean 4 proof (finite decision domain + lifting lemmas) + per-cell correspondence on real tables + documented-rule oracle"),
    "C13": dict(
        category="proof",
        text=("Theorems C13_position_after_append, C13_position_spec (position_after = 1 + newlines before / bytes since line start, "
              "for every input and offset) and C13_lr_spans: for the default string lexer with arbitrary in-range recognizers, "
              "whitespace skipping or Layout rule, partial parsing on/off and every input, every node of the tree returned by the "
              "Lean model of LRParser::parse satisfies Tree.SpanOk (token value = input slice at its span, both ends = computed "
              "positions; nonterminal span = first child start .. last child end; empty nonterminal zero-width), given the executable "
              "certificate Cert.noShiftStop on the real table; C13_lr_spans_ordered / C13_children_ordered / C13_neighbours: at every node "
              "the children's spans are ascending, disjoint and inside the node's span, so an empty nonterminal lies between its "
              "neighbours (true since fix 8db9d03; the defect it repaired, C13-N1, was found by this check). PARTIAL: the GLR half is "
              "decided by oracle + GLR engine correspondence only (known finding F20 for ambiguous GLR forests). Tie A: model "
              "vs real LRParser on every node (span, line/col, value slice, layout), multi-line / CRLF / multi-byte inputs; oracle "
              "recomputes everything from the raw bytes for LR and for every tree of GLR forests."),
        design_ref="5/C13",
        note=TRUST + "; the generated recognizers' `Some(s)` literal (F8) is only visible to compiled generated parsers (see C08/C10 harness); C13_construction_lr_spans (Props/C04Construction, audited by the C04 check): C13_lr_spans over every table of the model of LRTable::new with Cert.noShiftStop discharged by construction_no_shift_stop",
        technique="Lean 4 invariant proof over executable byte-level model + differential correspondence + byte-level span oracle"),
    "C18": dict(
        category="proof",
        text=("Theorems C18_existing_preserved / C18_appends_exactly_missing / C18_appended_fresh / C18_no_duplicates / "
              "C18_idempotent / C18_force_ignores_existing (+ settings and edge-case theorems) over Regen.run, the Lean model of "
              "generate_parser_actions: universal over all existing item lists (= all edit histories), all wish lists and both code "
              "variants; the full statement C18_statement is proved for the variant /repo now contains (C18_repo, after the F17 fix "
              "commit) and refuted for the code as it was (C18_statement_asIs_false). Tie A: the real process_grammar is run on "
              "randomly edited actions files (delete/rewrite/insert items), item by item token-for-token, twice, and diffed with the "
              "model; oracle: the property text on the real before/after item lists."),
        design_ref="5/C18",
        note=TRUST + "; syn/quote/prettyplease are opaque (items are token strings); non-doc comments are documented as not preserved",
        technique="Lean 4 proof over executable model + differential correspondence on edit histories"),
}

REASONS_PENDING = "check not built yet in this round (planned, see DESIGN.md section 5); not a judgement that the technique cannot apply"

m = {
    "version": 1,
    "setup_cmd": "cd /verif && ./setup.sh",
    "hooks": {
        "guard": "cargo feature `verif` of rustemo-compiler",
        "enable": "harness crates depend on rustemo-compiler by path with features=[\"verif\"]",
        "baseline_off_cmd": "cd /repo && cargo nextest run --workspace --no-fail-fast --test-threads 8 --offline || cargo test --workspace --no-fail-fast --offline",
        "source_commits": [],
        "add_only": True,
    },
    "engines": [{"name": "lean4-model", "path": "lean/", "serves_properties": sorted(CLAIMS),
                 "kind_free_text": "Lean 4 executable model + theorems (lake project rustemo_model), native driver, Rust harness, python orchestration"}],
    "checks": [],
    "not_applicable": [],
    "notes": "See DESIGN.md. ./check <id> --tier quick|thorough ; evidence in evidence/<id>.json ; known findings in known_findings.json",
}
try:
    import subprocess
    out = subprocess.run(["git", "-C", "/repo", "log", "--format=%H %s"], capture_output=True, text=True).stdout
    m["hooks"]["source_commits"] = [l.split(" ")[0] for l in out.splitlines() if "verif hook" in l]
except Exception:
    pass
for i in ids:
    if i in CLAIMS:
        c = CLAIMS[i]
        m["checks"].append({
            "property_id": i,
            "quick_cmd": f"./check {i} --tier quick",
            "thorough_cmd": f"./check {i} --tier thorough",
            "evidence_file": f"evidence/{i}.json",
            "replay_cmd_template": f"./check {i} --replay {{path}}",
            "engine": "lean4-model",
            "level_claimed": {"category": c["category"], "text": c["text"], "design_ref": c["design_ref"]},
            "level_note": c["note"],
            "technique": c["technique"],
        })
    else:
        m["not_applicable"].append({"property_id": i, "reason": REASONS_PENDING})
json.dump(m, open(os.path.join(VERIF, "MANIFEST.json"), "w"), indent=1, ensure_ascii=False)
print("claimed:", sorted(CLAIMS))
