#!/bin/sh
# usage: tools/confirm_seeded.sh <dir with patch.diff demo.sh ...>
# Confirms in a scratch worktree (outside /repo and /verif): patch applies, compiles, the pinned suite
# passes with it, the demonstration fails with it and passes without it. Prints a summary line.
set -u
SRC="$1"
WT=/tmp/confirm-wt
export CARGO_TARGET_DIR=/tmp/confirm-target CARGO_NET_OFFLINE=true
git -C /repo worktree remove --force $WT 2>/dev/null
git -C /repo worktree add --detach $WT HEAD >/dev/null 2>&1 || { echo "RESULT $SRC worktree-failed"; exit 2; }
cd $WT
# without the patch
DEMOENV=""; grep -q "target/" "$SRC/demo.sh" && DEMOENV="env -u CARGO_TARGET_DIR"
SH=sh; head -1 "$SRC/demo.sh" | grep -q bash && SH=bash
$DEMOENV $SH "$SRC/demo.sh" $WT > /tmp/confirm-demo-clean.log 2>&1; RC_CLEAN=$?
git -C $WT checkout -- . 2>/dev/null
git -C $WT apply "$SRC/patch.diff" || { echo "RESULT $SRC patch-does-not-apply"; git -C /repo worktree remove --force $WT; exit 2; }
cargo nextest run --workspace --no-fail-fast --test-threads 8 --offline > /tmp/confirm-suite.log 2>&1
SUITE=$(grep -E "tests run:" /tmp/confirm-suite.log | tail -1)
# generated files rewritten by the tests crate build are not part of the patch
$DEMOENV $SH "$SRC/demo.sh" $WT > /tmp/confirm-demo-patched.log 2>&1; RC_PATCH=$?
find "$SRC" -maxdepth 3 -type d -name target -exec rm -rf {} + 2>/dev/null
echo "RESULT $SRC clean_rc=$RC_CLEAN patched_rc=$RC_PATCH suite: $SUITE"
cd /
git -C /repo worktree remove --force $WT
