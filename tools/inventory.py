#!/usr/bin/env python3
"""Tie C — source inventory for C17 (what the model is allowed not to depend on, and the CLI wiring).

Extracts from the CURRENT sources of `rustemo-compiler/src` and `rustemo/src` (test files excluded):

  hash      every line mentioning HashMap/HashSet (bindings, parameters, constructors) and every
            iteration over a hash-typed binding (.iter() .keys() .values() .into_iter() .drain() …, for … in)
  env       every env::var / var_os / set_var / remove_var / vars and env! / option_env!
  globals   every `static`, `thread_local!`, `lazy_static!`, Lazy/OnceCell/OnceLock, yansi::enable/disable, Cell/RefCell statics
  clock     SystemTime / Instant / rand / process::id / thread id / `{:p}`
  fs_order  read_dir (OS-dependent enumeration order)
  cli       every field of `struct Cli` with its type and clap attributes; every builder call of `main` in
            order; the normalised body of `main`
  settings  the fields of `struct Settings`, the field values of `Default for Settings`, every builder
            method with its normalised body, and the normalised `process_grammar` / `process_dir`

Sites are keyed by file + enclosing `Type::fn` + normalised text — never by line number — so moving code
does not change the inventory. `python3 tools/inventory.py` prints the diff against the committed
`inventory/c17.json`; `--write` regenerates it (a deliberate step: the Lean model `Model/Cli.lean` must
have been re-read against the new sources first).
"""
import json
import os
import re
import sys

VERIF = os.path.dirname(os.path.dirname(os.path.abspath(__file__)))
COMMITTED = os.path.join(VERIF, "inventory", "c17.json")
ROOTS = ["rustemo-compiler/src", "rustemo/src"]


# -------------------------------------------------------------------------------------------------
# lexing: blank out comments and the contents of string / char literals (same length, newlines kept)
# -------------------------------------------------------------------------------------------------

def code_only(src):
    out = list(src)
    n = len(src)
    i = 0

    def blank(a, b):
        for k in range(a, b):
            if out[k] != "\n":
                out[k] = " "

    while i < n:
        c = src[i]
        two = src[i:i + 2]
        if two == "//":
            j = src.find("\n", i)
            j = n if j < 0 else j
            blank(i, j)
            i = j
        elif two == "/*":
            depth, j = 1, i + 2
            while j < n and depth:
                if src[j:j + 2] == "/*":
                    depth += 1
                    j += 2
                elif src[j:j + 2] == "*/":
                    depth -= 1
                    j += 2
                else:
                    j += 1
            blank(i, j)
            i = j
        elif c == "r" and re.match(r'r#*"', src[i:i + 8]) and (i == 0 or not (src[i - 1].isalnum() or src[i - 1] == "_")):
            m = re.match(r'r(#*)"', src[i:])
            closing = '"' + m.group(1)
            start = i + len(m.group(0))
            j = src.find(closing, start)
            j = n if j < 0 else j
            blank(start, j)
            i = j + len(closing)
        elif c == '"':
            j = i + 1
            while j < n and src[j] != '"':
                j += 2 if src[j] == "\\" else 1
            blank(i + 1, min(j, n))
            i = j + 1
        elif c == "'":
            # char literal or lifetime
            m = re.match(r"'(\\.[^']*|[^'\\])'", src[i:])
            if m:
                blank(i + 1, i + len(m.group(0)) - 1)
                i += len(m.group(0))
            else:
                i += 1
        else:
            i += 1
    return "".join(out)


def norm(s):
    return re.sub(r"\s+", "", s)


def match_brace(code, open_pos):
    depth = 0
    for k in range(open_pos, len(code)):
        if code[k] == "{":
            depth += 1
        elif code[k] == "}":
            depth -= 1
            if depth == 0:
                return k
    return len(code) - 1


class Src:
    def __init__(self, repo, rel):
        self.rel = rel
        self.text = open(os.path.join(repo, rel), encoding="utf-8", errors="replace").read()
        self.code = code_only(self.text)
        self.scopes = []   # (start, end, label) for fn and impl bodies
        for m in re.finditer(r"\bfn\s+(\w+)", self.code):
            semi = self.code.find(";", m.end())
            brace = self.code.find("{", m.end())
            if brace < 0 or (0 <= semi < brace):
                continue
            self.scopes.append((brace, match_brace(self.code, brace), "fn", m.group(1)))
        for m in re.finditer(r"\bimpl\b(?:\s*<[^{;]*?>)?\s+([^{;]+?)\s*\{", self.code):
            head = m.group(1)
            ty = head.split(" for ")[-1].strip()
            ty = re.match(r"[\w:]+", ty)
            brace = m.end() - 1
            self.scopes.append((brace, match_brace(self.code, brace), "impl", ty.group(0) if ty else "?"))
        for m in re.finditer(r"\bmacro_rules!\s*(\w+)\s*\{", self.code):
            brace = m.end() - 1
            self.scopes.append((brace, match_brace(self.code, brace), "fn", "macro " + m.group(1)))

    def where(self, pos):
        fns = [s for s in self.scopes if s[0] <= pos <= s[1] and s[2] == "fn"]
        impls = [s for s in self.scopes if s[0] <= pos <= s[1] and s[2] == "impl"]
        fn = min(fns, key=lambda s: s[1] - s[0])[3] if fns else "-"
        im = min(impls, key=lambda s: s[1] - s[0])[3] if impls else None
        return f"{im}::{fn}" if im else fn

    def line_at(self, pos, original=True):
        a = self.code.rfind("\n", 0, pos) + 1
        b = self.code.find("\n", pos)
        b = len(self.code) if b < 0 else b
        return (self.text if original else self.code)[a:b]

    def body_of(self, label, which="fn"):
        """code-only and original text of the body of the first scope with that label"""
        for a, b, kind, name in self.scopes:
            if kind == which and name == label:
                return self.code[a + 1:b], self.text[a + 1:b], a
        return None, None, None


def rust_files(repo):
    for root in ROOTS:
        base = os.path.join(repo, root)
        for d, _, files in sorted(os.walk(base)):
            for f in sorted(files):
                rel = os.path.relpath(os.path.join(d, f), repo)
                if not f.endswith(".rs"):
                    continue
                if f == "tests.rs" or "/tests/" in rel or rel.endswith("_test.rs"):
                    continue
                yield rel


ITER_METHODS = "iter|iter_mut|keys|values|values_mut|into_iter|into_keys|into_values|drain|retain|extract_if"


def scan_file(s, inv):
    code = s.code
    # ---- hash collections
    names = set()
    for m in re.finditer(r"\b(HashMap|HashSet)\b", code):
        line = s.line_at(m.start(), original=False)
        if re.match(r"\s*(pub\s+)?use\b", line) or re.match(r"\s*collections::\{", line):
            continue
        inv["hash"].append({"file": s.rel, "fn": s.where(m.start()), "kind": "mention", "text": norm(line)})
    for m in re.finditer(r"\b(\w+)\s*:\s*&?\s*(?:mut\s+)?(?:'\w+\s+)?(?:mut\s+)?(?:std::collections::)?(?:HashMap|HashSet)\b", code):
        names.add(m.group(1))
    for m in re.finditer(r"\blet\s+(?:mut\s+)?(\w+)\s*(?::[^=;]*)?=\s*(?:std::collections::)?(?:HashMap|HashSet)::", code):
        names.add(m.group(1))
    for m in re.finditer(r"\blet\s+(?:mut\s+)?(\w+)\b[^;]*?collect::<\s*(?:HashMap|HashSet)\b", code):
        names.add(m.group(1))
    for name in sorted(names):
        pats = [rf"\b(?:self\s*\.\s*)?{name}\s*\.\s*(?:{ITER_METHODS})\s*\(",
                rf"\bfor\s+[^{{;]*?\bin\s+&?\s*(?:mut\s+)?(?:self\s*\.\s*)?{name}\b\s*\{{"]
        for p in pats:
            for m in re.finditer(p, code):
                inv["hash"].append({"file": s.rel, "fn": s.where(m.start()), "kind": "iteration",
                                    "name": name, "text": norm(m.group(0))})
    # ---- environment
    for m in re.finditer(r"\benv::(var_os|var|set_var|remove_var|vars_os|vars)\s*\(", code):
        tail = s.text[m.end():m.end() + 80]
        arg = re.match(r'\s*"([^"]*)"', tail)
        inv["env"].append({"file": s.rel, "fn": s.where(m.start()), "call": "env::" + m.group(1),
                           "arg": arg.group(1) if arg else "?"})
    for m in re.finditer(r"\b(option_env|env)!\s*\(", code):
        tail = s.text[m.end():m.end() + 80]
        arg = re.match(r'\s*"([^"]*)"', tail)
        inv["env"].append({"file": s.rel, "fn": s.where(m.start()), "call": m.group(1) + "!",
                           "arg": arg.group(1) if arg else "?"})
    # ---- globals
    for m in re.finditer(r"^\s*(?:pub(?:\([^)]*\))?\s+)?static\s+(?:mut\s+)?(\w+)\s*:\s*([^=;]+)", code, flags=re.M):
        inv["globals"].append({"file": s.rel, "fn": s.where(m.start()), "kind": "static",
                               "text": norm(m.group(1) + ":" + m.group(2))})
    for m in re.finditer(r"\b(thread_local|lazy_static)!\s*[\{\(]", code):
        inv["globals"].append({"file": s.rel, "fn": s.where(m.start()), "kind": m.group(1), "text": norm(s.line_at(m.start(), False))})
    for m in re.finditer(r"\byansi::(enable|disable|whenever)\s*\(", code):
        inv["globals"].append({"file": s.rel, "fn": s.where(m.start()), "kind": "toggle", "text": "yansi::" + m.group(1)})
    for m in re.finditer(r"\b(OnceCell|OnceLock|AtomicUsize|AtomicBool|AtomicU64)\b", code):
        inv["globals"].append({"file": s.rel, "fn": s.where(m.start()), "kind": "cell", "text": norm(s.line_at(m.start(), False))})
    # ---- clocks, randomness, identities
    for m in re.finditer(r"\b(SystemTime|Instant::|rand::|thread_rng|RandomState|process::id|thread::current|getrandom)\b", code):
        inv["clock"].append({"file": s.rel, "fn": s.where(m.start()), "text": norm(s.line_at(m.start(), False))})
    for m in re.finditer(r"\{:p\}", s.text):
        inv["clock"].append({"file": s.rel, "fn": s.where(m.start()), "text": "{:p}"})
    # ---- file system enumeration order
    for m in re.finditer(r"\b(read_dir|WalkDir|glob::glob)\b", code):
        inv["fs_order"].append({"file": s.rel, "fn": s.where(m.start()), "text": norm(s.line_at(m.start(), False))})


def split_top(s, sep=","):
    parts, depth, cur = [], 0, ""
    for ch in s:
        if ch in "([{<":
            depth += 1
        elif ch in ")]}>":
            depth -= 1
        if ch == sep and depth == 0:
            parts.append(cur)
            cur = ""
        else:
            cur += ch
    if cur.strip():
        parts.append(cur)
    return parts


def scan_cli(repo, inv):
    s = Src(repo, "rustemo-compiler/src/main.rs")
    m = re.search(r"\bstruct\s+Cli\s*\{", s.code)
    fields = []
    if m:
        a = m.end() - 1
        b = match_brace(s.code, a)
        attrs = []
        # walk the original text line by line inside the struct (doc comments are needed for reference)
        docs = []
        for line in s.text[a + 1:b].splitlines():
            t = line.strip()
            if t.startswith("///"):
                docs.append(t[3:].strip())
            elif t.startswith("#["):
                attrs.append(norm(t))
            else:
                fm = re.match(r"(?:pub\s+)?(\w+)\s*:\s*(.+?),?\s*$", t)
                if fm:
                    fields.append({"name": fm.group(1), "type": norm(fm.group(2)), "attrs": attrs, "doc": " ".join(docs)})
                    attrs, docs = [], []
    inv["cli"]["fields"] = fields
    # struct-level attributes (version etc. do not influence generation; recorded for completeness)
    body, _, _ = s.body_of("main")
    calls = []
    if body is not None:
        for cm in re.finditer(r"\.\s*(\w+)\s*\(", body):
            close = body.find(")", cm.end())
            # balanced argument
            depth, k = 1, cm.end()
            while k < len(body) and depth:
                depth += body[k] == "("
                depth -= body[k] == ")"
                k += 1
            calls.append("." + cm.group(1) + "(" + norm(body[cm.end():k - 1]) + ")")
        inv["cli"]["main_body"] = norm(body)
    inv["cli"]["main_calls"] = calls
    enums = {}
    for rel in ("rustemo-compiler/src/settings.rs", "rustemo-compiler/src/table/mod.rs"):
        es = Src(repo, rel)
        for em in re.finditer(r"\benum\s+(TableType|ParserAlgo|LexerType|BuilderType|GeneratorTableType)\s*\{", es.code):
            a = em.end() - 1
            b = match_brace(es.code, a)
            variants = []
            for part in split_top(es.code[a + 1:b]):
                t = norm(part)
                if t:
                    variants.append(t)
            enums[em.group(1)] = variants
    inv["cli"]["value_enums"] = enums


def scan_settings(repo, inv):
    s = Src(repo, "rustemo-compiler/src/settings.rs")
    m = re.search(r"\bstruct\s+Settings\s*\{", s.code)
    fields = []
    if m:
        a = m.end() - 1
        b = match_brace(s.code, a)
        for part in split_top(s.code[a + 1:b]):
            fm = re.match(r"\s*(?:pub(?:\([^)]*\))?\s+)?(\w+)\s*:\s*(.+?)\s*$", part, flags=re.S)
            if fm:
                fields.append(fm.group(1) + ":" + norm(fm.group(2)))
    inv["settings"]["fields"] = fields
    # Default impl: the struct literal `Self { … }`
    body, orig, _ = s.body_of("default")
    dflt = []
    if body is not None:
        m2 = re.search(r"\bSelf\s*\{", body)
        if m2:
            a = m2.end() - 1
            b = match_brace(body, a)
            # string literal values are blanked in the code-only text: take the parts from the original
            dflt = [norm(p) for p in split_top(code_strip_comments(orig[a + 1:b]))]
        inv["settings"]["default_prelude"] = norm(code_strip_comments(orig[:m2.start()])) if m2 else ""
    inv["settings"]["default"] = dflt
    builders = {}
    for a, b, kind, name in s.scopes:
        if kind != "fn":
            continue
        if s.where(a).startswith("Settings::") and name not in ("default",):
            head_start = s.code.rfind("fn " + name, 0, a)
            sig = norm(s.code[head_start:a])
            builders[name] = {"sig": sig, "body": norm(code_strip_comments(s.text[a + 1:b]))}
    inv["settings"]["methods"] = builders


def code_strip_comments(text):
    """original text with comments removed but string literals kept"""
    out = []
    i = 0
    n = len(text)
    while i < n:
        if text[i] == '"':
            j = i + 1
            while j < n and text[j] != '"':
                j += 2 if text[j] == "\\" else 1
            out.append(text[i:j + 1])
            i = j + 1
        elif text[i:i + 2] == "//":
            j = text.find("\n", i)
            i = n if j < 0 else j
        elif text[i:i + 2] == "/*":
            j = text.find("*/", i)
            i = n if j < 0 else j + 2
        else:
            out.append(text[i])
            i += 1
    return "".join(out)


def extract(repo="/repo"):
    inv = {"version": 1, "roots": ROOTS, "hash": [], "env": [], "globals": [], "clock": [], "fs_order": [],
           "cli": {}, "settings": {}}
    for rel in rust_files(repo):
        scan_file(Src(repo, rel), inv)
    scan_cli(repo, inv)
    scan_settings(repo, inv)
    for k in ("hash", "env", "globals", "clock", "fs_order"):
        inv[k] = sorted(inv[k], key=lambda e: json.dumps(e, sort_keys=True))
    return inv


# -------------------------------------------------------------------------------------------------
# comparison
# -------------------------------------------------------------------------------------------------

def _multiset(entries):
    d = {}
    for e in entries:
        k = json.dumps(e, sort_keys=True)
        d[k] = d.get(k, 0) + 1
    return d


def diff(committed, current):
    """-> (blocking, notes): blocking = differences the model does not account for (new hash mention /
    iteration, new env access, new global / clock / fs enumeration, ANY change of the Cli struct, of main,
    of the Settings struct / defaults / builder bodies); notes = sites that disappeared (harmless for the
    theorem — the model over-approximates — but the committed inventory should be regenerated)."""
    blocking, notes = [], []
    for sec in ("hash", "env", "globals", "clock", "fs_order"):
        a, b = _multiset(committed.get(sec, [])), _multiset(current.get(sec, []))
        for k in sorted(b):
            if b[k] > a.get(k, 0):
                blocking.append(f"{sec}: new site {k}")
        for k in sorted(a):
            if a[k] > b.get(k, 0):
                notes.append(f"{sec}: site gone {k}")
    ca, cb = committed.get("cli", {}), current.get("cli", {})
    fa = {f["name"]: f for f in ca.get("fields", [])}
    fb = {f["name"]: f for f in cb.get("fields", [])}
    for n in sorted(set(fa) | set(fb)):
        if n not in fa:
            blocking.append(f"cli: new field {n} {fb[n]['type']} {fb[n]['attrs']}")
        elif n not in fb:
            blocking.append(f"cli: field removed {n}")
        elif (fa[n]["type"], fa[n]["attrs"]) != (fb[n]["type"], fb[n]["attrs"]):
            blocking.append(f"cli: field {n} changed: {fa[n]['type']} {fa[n]['attrs']} -> {fb[n]['type']} {fb[n]['attrs']}")
    if [f["name"] for f in ca.get("fields", [])] != [f["name"] for f in cb.get("fields", [])] and set(fa) == set(fb):
        notes.append("cli: field order changed (no influence on parsing)")
    if ca.get("main_calls") != cb.get("main_calls"):
        a, b = ca.get("main_calls") or [], cb.get("main_calls") or []
        k = next((i for i, (x, y) in enumerate(zip(a, b)) if x != y), min(len(a), len(b)))
        blocking.append(f"cli: builder calls of main changed from position {k}: {a[k:k + 4]} -> {b[k:k + 4]}")
    elif ca.get("main_body") != cb.get("main_body"):
        blocking.append("cli: body of main changed (same builder calls)")
    if ca.get("value_enums") != cb.get("value_enums"):
        blocking.append(f"cli: value enums changed: {ca.get('value_enums')} -> {cb.get('value_enums')}")
    sa, sb = committed.get("settings", {}), current.get("settings", {})
    if sorted(sa.get("fields", [])) != sorted(sb.get("fields", [])):
        blocking.append(f"settings: struct fields changed: {sorted(set(sa.get('fields', [])) ^ set(sb.get('fields', [])))}")
    if sorted(sa.get("default", [])) != sorted(sb.get("default", [])) or sa.get("default_prelude") != sb.get("default_prelude"):
        blocking.append(f"settings: Default changed: {sorted(set(sa.get('default', [])) ^ set(sb.get('default', [])))}")
    ma, mb = sa.get("methods", {}), sb.get("methods", {})
    for n in sorted(set(ma) | set(mb)):
        if n not in ma:
            blocking.append(f"settings: new method {n}")
        elif n not in mb:
            blocking.append(f"settings: method removed {n}")
        elif ma[n] != mb[n]:
            blocking.append(f"settings: method {n} changed")
    return blocking, notes


def load_committed():
    return json.load(open(COMMITTED))


def main():
    repo = "/repo"
    args = [a for a in sys.argv[1:]]
    if "--repo" in args:
        repo = args[args.index("--repo") + 1]
    inv = extract(repo)
    if "--write" in args:
        os.makedirs(os.path.dirname(COMMITTED), exist_ok=True)
        with open(COMMITTED, "w") as fh:
            json.dump(inv, fh, indent=1, sort_keys=True)
            fh.write("\n")
        print(f"written {COMMITTED}")
        return 0
    if "--print" in args:
        json.dump(inv, sys.stdout, indent=1, sort_keys=True)
        return 0
    blocking, notes = diff(load_committed(), inv)
    for b in blocking:
        print("BLOCKING", b)
    for n in notes:
        print("note", n)
    print(f"{len(blocking)} blocking, {len(notes)} notes")
    return 1 if blocking else 0


if __name__ == "__main__":
    sys.exit(main())
