#!/usr/bin/env python3
"""Tie C for C16 — inventory of the panic-capable sites of the compiler crate.

For every non-test source file of `rustemo-compiler/src` (the bootstrapped parser `lang/rustemo.rs` and the hook
`verif.rs` excluded) lists, per enclosing `Type::fn`, the number of `.unwrap()`, `.expect(`, `panic!`, `unreachable!`,
`todo!`, `unimplemented!`, `assert*!` and `debug_assert*!` occurrences (comments and string contents blanked out; keyed
by file + function, never by line).  The Lean models (`Front.Site` for grammar/builder.rs and int_const, `Resolve` for
`LRTable::calculate_reductions`) and the recorded findings were written against exactly this set: a site that appears,
disappears or moves to another function means the totality argument has to be re-read, so `./check C16` reports it.
`python3 tools/inventory16.py` prints the diff against inventory/c16.json, `--write` regenerates it."""
import json
import os
import re
import sys

sys.path.insert(0, os.path.dirname(os.path.abspath(__file__)))
from inventory import Src  # noqa: E402

VERIF = os.path.dirname(os.path.dirname(os.path.abspath(__file__)))
COMMITTED = os.path.join(VERIF, "inventory", "c16.json")
KINDS = [("unwrap", r"\.\s*unwrap\s*\(\s*\)"), ("expect", r"\.\s*expect\s*\("), ("panic!", r"\bpanic!\s*[\(\[{]"),
         ("unreachable!", r"\bunreachable!\s*[\(\[{]"), ("todo!", r"\btodo!\s*[\(\[{]"),
         ("unimplemented!", r"\bunimplemented!\s*[\(\[{]"), ("assert", r"\b(?:debug_)?assert(?:_eq|_ne)?!\s*[\(\[{]")]
MODELLED = {
    "rustemo-compiler/src/grammar/builder.rs": "Lean Front.build (Site enum)",
    "rustemo-compiler/src/lang/rustemo_actions.rs": "Lean Front (int_const = Site.intConst; the other actions are total constructors)",
    "rustemo-compiler/src/table/mod.rs": "Lean Resolve.cell for LRTable::calculate_reductions; the rest differential only",
}


def extract(repo="/repo"):
    out = {}
    base = os.path.join(repo, "rustemo-compiler/src")
    for d, _, files in sorted(os.walk(base)):
        for f in sorted(files):
            rel = os.path.relpath(os.path.join(d, f), repo)
            if not f.endswith(".rs") or f == "tests.rs" or "/tests/" in rel or rel.endswith("lang/rustemo.rs") \
                    or rel.endswith("src/verif.rs"):
                continue
            s = Src(repo, rel)
            from inventory import match_brace
            tests = [(m.end() - 1, match_brace(s.code, m.end() - 1))
                     for m in re.finditer(r"#\[cfg\(test\)\]\s*(?:pub\s+)?mod\s+\w+\s*\{", s.code)]
            for kind, pat in KINDS:
                for m in re.finditer(pat, s.code):
                    if any(a <= m.start() <= b for a, b in tests):
                        continue
                    fn = s.where(m.start())
                    if fn.endswith("verif_items") or "verif_" in fn:
                        continue
                    key = f"{rel} :: {fn} :: {kind}"
                    out[key] = out.get(key, 0) + 1
    return out


def diff(committed, current):
    d = []
    for k in sorted(set(committed) | set(current)):
        a, b = committed.get(k, 0), current.get(k, 0)
        if a != b:
            d.append(f"{k}: inventory {a}, sources {b}")
    return d


def main():
    cur = extract()
    if "--write" in sys.argv:
        os.makedirs(os.path.dirname(COMMITTED), exist_ok=True)
        json.dump({"comment": __doc__.split("\n")[0], "modelled": MODELLED, "sites": cur}, open(COMMITTED, "w"), indent=1, sort_keys=True)
        print("written", len(cur), "keys,", sum(cur.values()), "sites")
        return 0
    com = json.load(open(COMMITTED))["sites"]
    d = diff(com, cur)
    print("\n".join(d) if d else "inventory matches the sources")
    return 1 if d else 0


if __name__ == "__main__":
    sys.exit(main())
