"""Tie A for the compiler back end: the whole table of the real `LRTable::new` against the Lean model of the
construction (`Table.build`, lean/Rustemo/Model/Table.lean), used by C04 and C05.

Driver request `table` (after `load <dump>`): `same <n>` or `diff <first difference>` / `model err|panic|fuel ...`.
Driver request `table outcome`: outcome class of the model alone (for grammars the real compiler rejects with
"First set empty": the dump then carries no table, the grammar records come from a front-end `F` job)."""
import re

from common import hx, unhx, run_vdyn, run_model

REQUEST = "table"
# While the command word is not yet dispatched in lean/Main.lean the driver answers `bad-request`: recorded as an
# undischarged obligation (and a note), not as a violation.  Set to True once Main.lean is wired (the two lines are
# in notes/Table.md) to make a missing command a violation like C05's `resolve`.
STRICT_WIRING = False


class TableTie:
    """collects the `table` answers of one check run"""

    def __init__(self):
        self.diffs = []          # (case, answer)
        self.compared = 0
        self.unwired = 0
        self.broken = []         # (case, answer): driver crashed / unparsable

    def judge(self, rep, case, answer):
        """answer of the driver to `table` for a case whose real compilation produced a dump"""
        if answer == "bad-request":
            self.unwired += 1
            return
        self.compared += 1
        word = answer.split(" ", 1)[0]
        if word == "same":
            rep.count("table:same")
            if answer.endswith("gwf=0"):
                # the decidable hypothesis `Table.gwf` of the construction theorems fails for a grammar the real builder
                # produced: the theorems of Props/C04Construction.lean do not apply to it (not a violation by itself)
                rep.count("table:gwf=0")
                rep.notes.append("Table.gwf fails on a real grammar: " + repr(getattr(case, "text", ""))[:200])
        elif word in ("diff", "model"):
            rep.count("table:" + " ".join(answer.split(" ")[:2]))
            self.diffs.append((case, answer))
        else:
            rep.count("table:driver-" + word[:20])
            self.broken.append((case, answer))

    def judge_outcome(self, rep, case, real_msg, answer):
        """the real compiler rejected the grammar in `check_empty_sets`; the model must return the same symbol"""
        if answer == "bad-request":
            self.unwired += 1
            return
        self.compared += 1
        m = re.search(r'grammar symbol "([^"]*)"', real_msg)
        f = answer.split(" ")
        if f[0] == "err" and len(f) >= 3 and m and unhx(f[2]).decode(errors="replace") == m.group(1):
            rep.count("table:same-first-set-error")
        else:
            rep.count("table:diff outcome")
            self.diffs.append((case, f"diff outcome: model {answer[:80]} real err {real_msg[:120]!r}"))

    def report(self, rep, describe, other_failures, max_total=3):
        """violations for table differences (smallest grammar first) in the slots the check's own oracle left free"""
        wired = self.unwired == 0
        rep.oblige("Lean driver answers `table` requests (Main.lean dispatch to Driver/Table.lean)", wired,
                   "" if wired else f"{self.unwired} requests answered 'bad-request': add `import Rustemo.Driver.Table` and "
                                    "`| \"table\" => (st, Rustemo.Table.handleTable st.dump rest)` to lean/Main.lean")
        if not wired:
            rep.notes.append("corr:table NOT CHECKED: the driver does not know the command `table`")
            if STRICT_WIRING:
                rep.violation({"why": "the Lean driver does not answer `table` requests (command not wired into Main.lean); "
                                      "correspondence corr:table cannot be checked"}, no_input=True)
        rep.counters["table_compared"] = self.compared
        rep.counters["table_diffs"] = len(self.diffs)
        free = max(0, max_total - other_failures)
        self.diffs.sort(key=lambda d: len(describe(d[0])["grammar"]))
        for c, ans in self.diffs[:free]:
            rep.violation(dict(describe(c), kind="impl!=model",
                               why="correspondence corr:table broken: the table built by the real LRTable::new differs from "
                                   "the Lean model of the construction (Table.build) on this grammar and settings: " + ans,
                               note="the replay input is the grammar + settings; the first difference (FIRST sets, state "
                                    "count, items/lookaheads, cells, gotos, sorted terminals, max priorities, conflict count) "
                                    "is named in `why`"))
        if self.broken and not self.diffs and free:
            c, ans = self.broken[0]
            rep.violation(dict(describe(c), why="the Lean driver gave no usable answer to `table`: " + ans[:200],
                               kind="impl!=model"), no_input=True)
        return len(self.diffs)


def synth_dump(settings, front_records):
    """a dump with settings + grammar records only (no table), for `table outcome`"""
    st = list(settings)
    algo = st[0]
    tt = st[1] if st[1] != "-" else ("LALR_RN" if algo == "GLR" else "LALR_PAGER")

    def b(i, dflt):
        return dflt if st[i] == "-" else st[i]
    rec = f"settings {algo} {tt} {b(2, '0')} {b(3, '0' if algo == 'GLR' else '1')} {b(4, '1')} {b(5, '1')} {b(6, '0' if algo == 'GLR' else '1')} {b(7, '0')} {b(8, '1')}"
    return rec + " | " + front_records


def rejected_outcomes(rep, tie, cases, text_of, settings_of, answer_of):
    """cases the real compiler rejected with 'First set empty' (check_empty_sets): grammar records through the front-end
    job, model outcome through `table outcome`"""
    sel = [c for c in cases if answer_of(c).startswith("dump err infinite-recursion")]
    if not sel:
        return
    fronts = run_vdyn([["F " + hx(text_of(c))] for c in sel], tag="table-front")
    reqs, rc = [], []
    for c, a in zip(sel, fronts):
        if a[0].startswith("front ok "):
            reqs.append(["load " + synth_dump(settings_of(c), a[0][len("front ok "):]), "table outcome"])
            rc.append(c)
    if not reqs:
        return
    outs = run_model(reqs, tag="table-outcome")
    for c, o in zip(rc, outs):
        msg = unhx(answer_of(c).split(" ")[3]).decode(errors="replace")
        tie.judge_outcome(rep, c, msg, o[1])
