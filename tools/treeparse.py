"""Parser for the canonical tree text printed by harness and model, and tree oracles."""


def tokenize(s):
    out = []
    cur = ""
    for ch in s:
        if ch in "()":
            if cur:
                out.append(cur)
                cur = ""
            out.append(ch)
        elif ch == " ":
            if cur:
                out.append(cur)
                cur = ""
        else:
            cur += ch
    if cur:
        out.append(cur)
    return out


def parse_pos(s):
    a, b, c = s.split(":")
    return (int(a), None if b == "-" else int(b), None if c == "-" else int(c))


def parse_span(s):
    a, b = s.split("-", 1) if s.count("-") == 1 else split_span(s)
    return (parse_pos(a), parse_pos(b))


def split_span(s):
    # positions may contain '-' for missing line/col ("3:-:-"); split at the '-' followed by a digit
    # that starts the second position: find the middle separator
    parts = s.split(":")
    # a:b:c-d:e:f  -> join
    # robust: try every '-' as separator
    for i, ch in enumerate(s):
        if ch == "-" and i > 0:
            l, r = s[:i], s[i + 1:]
            if l.count(":") == 2 and r.count(":") == 2:
                return l, r
    raise ValueError(s)


def parse_slice(s):
    if s == "-":
        return None
    if s.startswith("ext:"):
        return ("ext", s[4:])
    a, b = s.split("+")
    return (int(a), int(b))


def parse_tree(toks, i=0):
    """returns (tree, next index). tree = dict(kind='T'|'N', ...)"""
    assert toks[i] == "(", toks[i:i + 5]
    kind = toks[i + 1]
    if kind == "T":
        t = {"k": "T", "kind": int(toks[i + 2]), "span": parse_span(toks[i + 3]),
             "val": parse_slice(toks[i + 4]), "lay": parse_slice(toks[i + 5])}
        assert toks[i + 6] == ")"
        return t, i + 7
    elif kind == "N":
        t = {"k": "N", "prod": int(toks[i + 2]), "span": parse_span(toks[i + 3]),
             "lay": parse_slice(toks[i + 4]), "cs": []}
        j = i + 5
        while toks[j] == "(":
            c, j = parse_tree(toks, j)
            t["cs"].append(c)
        assert toks[j] == ")"
        return t, j + 1
    raise ValueError(kind)


def parse_tree_text(s):
    toks = tokenize(s)
    t, j = parse_tree(toks, 0)
    return t


def leaves(t):
    if t["k"] == "T":
        return [t]
    out = []
    for c in t["cs"]:
        out += leaves(c)
    return out


def shape(t):
    """tree without spans/layout: for comparing structure"""
    if t["k"] == "T":
        return ("T", t["kind"])
    return ("N", t["prod"], tuple(shape(c) for c in t["cs"]))


def valid(t, prods, nterms, sym):
    """prods: list of (lhs_symbol, [rhs symbols]); derivation-tree validity."""
    if t["k"] == "T":
        return t["kind"] == sym and t["kind"] < nterms
    if t["prod"] >= len(prods):
        return False
    lhs, rhs = prods[t["prod"]]
    if lhs != sym or len(rhs) != len(t["cs"]):
        return False
    return all(valid(c, prods, nterms, s) for c, s in zip(t["cs"], rhs))


def valid_elided(t, prods, nterms, sym, nullable):
    """validity modulo elided nullable tails (GLR right-nulled reductions)"""
    if t["k"] == "T":
        return t["kind"] == sym and t["kind"] < nterms
    if t["prod"] >= len(prods):
        return False
    lhs, rhs = prods[t["prod"]]
    n = len(t["cs"])
    if lhs != sym or n > len(rhs):
        return False
    if not all(s in nullable for s in rhs[n:]):
        return False
    return all(valid_elided(c, prods, nterms, s, nullable) for c, s in zip(t["cs"], rhs))


def parse_dump(d):
    """hook dump (records separated by ' | ') -> dict"""
    out = {"terms": [], "nonterms": [], "prods": [], "states": [], "settings": None, "conflicts": 0,
           "firsts": [], "rn": None}
    cur = None
    for rec in d.split(" | "):
        f = rec.split()
        if not f:
            continue
        if f[0] == "settings":
            out["settings"] = f[1:]
        elif f[0] == "grammar":
            out["nterms"] = int(f[1]); out["nnonterms"] = int(f[2]); out["empty"] = int(f[4])
            out["aug"] = int(f[6]); out["augl"] = None if f[7] == "-" else int(f[7]); out["start"] = int(f[8])
        elif f[0] == "term":
            out["terms"].append({"name": f[2], "prio": int(f[3]), "assoc": f[4], "rec": f[5],
                                 "has_content": f[6] == "1", "reachable": f[7] == "1"})
        elif f[0] == "nonterm":
            out["nonterms"].append({"name": f[2], "reachable": f[3] == "1",
                                    "prods": [int(x) for x in f[6:6 + int(f[5])]]})
        elif f[0] == "prod":
            n = int(f[10])
            rhs = [int(x.split(":")[0]) for x in f[11:11 + n]]
            out["prods"].append({"nt": int(f[2]), "lhs": out["nterms"] + int(f[2]), "ntidx": int(f[3]),
                                 "kind": f[4], "prio": int(f[5]), "assoc": f[6], "nops": f[7] == "1",
                                 "nopse": f[8] == "1", "rhs": rhs,
                                 "names": [x.split(":")[1] for x in f[11:11 + n]],
                                 "bools": [x.split(":")[2] for x in f[11:11 + n]]})
        elif f[0] == "first":
            out["firsts"].append([int(x) for x in f[3:]])
        elif f[0] == "rn":
            out["rn"] = None if f[1] == "-" else [int(x) for x in f[2:]]
        elif f[0] == "table":
            out["layout_state"] = None if f[2] == "-" else int(f[2])
        elif f[0] == "state":
            cur = {"idx": int(f[1]), "symbol": int(f[2]), "items": [], "acts": {}, "gotos": {}, "sorted": [],
                   "maxprio": {}}
            out["states"].append(cur)
        elif f[0] == "item":
            cur["items"].append((int(f[1]), int(f[2]), [int(x) for x in f[4:]]))
        elif f[0] == "act":
            acts = []
            i = 3
            for _ in range(int(f[2])):
                if f[i] == "S":
                    acts.append(("S", int(f[i + 1]))); i += 2
                elif f[i] == "R":
                    acts.append(("R", int(f[i + 1]), int(f[i + 2]))); i += 3
                else:
                    acts.append(("A",)); i += 1
            cur["acts"][int(f[1])] = acts
        elif f[0] == "goto":
            cur["gotos"][int(f[1])] = int(f[2])
        elif f[0] == "sorted":
            cur["sorted"] = [(int(f[2 + 2 * k]), f[3 + 2 * k] == "1") for k in range(int(f[1]))]
        elif f[0] == "maxprio":
            cur["maxprio"] = {int(f[2 + 2 * k]): int(f[3 + 2 * k]) for k in range(int(f[1]))}
        elif f[0] == "conflicts":
            out["conflicts"] = int(f[1])
    return out
