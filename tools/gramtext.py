"""Abstract rustemo grammar specs for the front-end property C09 (and the builder part of C16).

A spec is plain data (Spec/Rule/Alt/Assign/Ref/TermRule below).  It is rendered twice:
  * `render_text(spec)`  -> `.rustemo` text for the real compiler (its own text->AST parser is thereby
                            covered by the correspondence diff without being modelled), and
  * `render_ast(spec)`   -> the token line the Lean driver `front build` reads (the File AST).
`doc_check(spec, dump)` is the documented meaning of the grammar language written out independently
of the Lean model (structural oracle), `expand(spec)` the hand-written documented expansion of the
repetition sugar (language oracle).

All randomness comes from the `random.Random` passed in."""
import binascii

KEYWORDS = {"terminals", "import", "as", "left", "right", "reduce", "shift", "dynamic", "nops", "nopse", "prefer",
            "finish", "nofinish", "true", "false"}
RUST_KW = ["_", "abstract", "as", "become", "box", "break", "const", "continue", "crate", "do", "else", "enum",
           "extern", "false", "final", "fn", "for", "if", "impl", "in", "let", "loop", "macro", "match", "mod",
           "move", "mut", "override", "priv", "pub", "ref", "return", "Self", "self", "static", "struct", "super",
           "trait", "true", "type", "typeof", "unsafe", "unsized", "use", "virtual", "where", "while", "yield"]
U32MAX = 4294967295


def hx(s):
    if isinstance(s, str):
        s = s.encode()
    return binascii.hexlify(s).decode() if s else "="


def unhx(s):
    return b"" if s == "=" else binascii.unhexlify(s)


# ---------------------------------------------------------------------------------------------
# abstract syntax
# ---------------------------------------------------------------------------------------------

class Ref:
    """sym: ('n', name) | ('s', string) | ('G', group text);  rep: None | (op, mods) with op one of
    * *! + +! ? ?! and mods None | [names]"""

    def __init__(self, sym, rep=None):
        self.sym = sym
        self.rep = rep

    def key(self):
        return (self.sym, None if self.rep is None else (self.rep[0], None if self.rep[1] is None else tuple(self.rep[1])))


class Assign:
    """kind: 'p' (name=ref) | 'b' (name?=ref) | 'g' (bare reference)"""

    def __init__(self, ref, kind="g", name=None):
        self.ref = ref
        self.kind = kind
        self.name = name


class Alt:
    def __init__(self, assigns, metas=None):
        self.assigns = assigns
        self.metas = metas or []


class Rule:
    def __init__(self, name, alts, metas=None, annotation=None):
        self.name = name
        self.alts = alts
        self.metas = metas or []
        self.annotation = annotation


class TermRule:
    """recog: None | ('S', string) | ('R', regex source)"""

    def __init__(self, name, recog, metas=None, annotation=None):
        self.name = name
        self.recog = recog
        self.metas = metas or []
        self.annotation = annotation


class Spec:
    def __init__(self, rules, terms, tag=""):
        self.rules = rules      # None | [Rule]
        self.terms = terms      # None | [TermRule]
        self.tag = tag

# meta items: ('k', keyword) | ('i', digits text) | ('K', kind name)
#             | ('u', key, ('i', digits) | ('f', source text, display text) | ('b', bool) | ('s', string))

FLOATS = [("1.5", "1.5"), ("+2.50", "2.5"), ("-0.25", "-0.25"), ("7.", "7"), ("1.e3", "1000"), ("0.5e1", "5"),
          ("12.0", "12"), ("-3.0e0", "-3")]


# ---------------------------------------------------------------------------------------------
# rendering to .rustemo text
# ---------------------------------------------------------------------------------------------

def quote(s):
    if "'" in s or ('"' in s and len(s) % 2 == 1):
        # double-quoted: `\"` is the escape of the quote, symmetric to `\'` in single-quoted strings
        return '"' + s.replace("\\", "\\\\").replace('"', '\\"') + '"'
    return "'" + s.replace("\\", "\\\\").replace("'", "\\'") + "'"


def text_val(v):
    if v[0] == "i":
        return v[1]
    if v[0] == "f":
        return v[1]
    if v[0] == "b":
        return "true" if v[1] else "false"
    return quote(v[1])


def text_meta(m):
    if m[0] == "k":
        return m[1]
    if m[0] == "i":
        return m[1]
    if m[0] == "K":
        return m[1]
    return f"{m[1]}: {text_val(m[2])}"


def text_metas(ms):
    return " {" + ", ".join(text_meta(m) for m in ms) + "}" if ms else ""


def text_ref(r):
    if r.sym[0] == "n":
        s = r.sym[1]
    elif r.sym[0] == "s":
        s = quote(r.sym[1])
    else:
        s = "(" + r.sym[1] + ")"
    if r.rep is not None:
        s += r.rep[0]
        if r.rep[1] is not None:
            s += "[" + ", ".join(r.rep[1]) + "]"
    return s


def text_assign(a):
    if a.kind == "p":
        return f"{a.name}={text_ref(a.ref)}"
    if a.kind == "b":
        return f"{a.name}?={text_ref(a.ref)}"
    return text_ref(a.ref)


def text_regex(src):
    return "/" + src.replace("/", "\\/") + "/"


def render_text(spec):
    out = []
    for r in spec.rules or []:
        head = (f"@{r.annotation} " if r.annotation is not None else "") + r.name + text_metas(r.metas)
        alts = [" ".join(text_assign(a) for a in alt.assigns) + text_metas(alt.metas) for alt in r.alts]
        out.append(head + ": " + " | ".join(alts) + ";")
    if spec.terms is not None:
        out.append("terminals")
        for t in spec.terms:
            head = (f"@{t.annotation} " if t.annotation is not None else "") + t.name + ":"
            if t.recog is not None:
                head += " " + (quote(t.recog[1]) if t.recog[0] == "S" else text_regex(t.recog[1]))
            out.append(head + text_metas(t.metas) + ";")
    return "\n".join(out) + "\n"


# ---------------------------------------------------------------------------------------------
# rendering to the AST token line of the Lean driver
# ---------------------------------------------------------------------------------------------

def int_token(text):
    """value the grammar action `int_const` is asked to convert; unparsable (non-ASCII digits) -> 2^64"""
    if text.isascii() and text.isdigit():
        return str(int(text))
    return str(2 ** 64)


def ast_val(v):
    if v[0] == "i":
        return "i:" + int_token(v[1])
    if v[0] == "f":
        return "f:" + hx(v[2])
    if v[0] == "b":
        return "b:" + ("1" if v[1] else "0")
    return "s:" + hx(v[1])


def ast_meta(m):
    if m[0] == "k":
        return "k:" + m[1]
    if m[0] == "i":
        return "i:" + int_token(m[1])
    if m[0] == "K":
        return "K:" + hx(m[1])
    return f"u:{hx(m[1])}:{ast_val(m[2])}"


def ast_metas(ms):
    return [str(len(ms))] + [ast_meta(m) for m in ms]


OPS = {"*": "Z", "*!": "ZG", "+": "O", "+!": "OG", "?": "Q", "?!": "QG"}


def ast_ref(r):
    if r.sym[0] == "n":
        s = "n:" + hx(r.sym[1])
    elif r.sym[0] == "s":
        s = "s:" + hx(r.sym[1])
    else:
        s = "G"
    if r.rep is None:
        return [s, "-"]
    mods = "-" if r.rep[1] is None else ("." if not r.rep[1] else "+".join(hx(m) for m in r.rep[1]))
    return [s, OPS[r.rep[0]] + ":" + mods]


def render_ast(spec):
    t = []
    if spec.terms is None:
        t.append("T-")
    else:
        t += ["T", str(len(spec.terms))]
        for tr in spec.terms:
            t += ["t", hx(tr.name), "-" if tr.annotation is None else hx(tr.annotation),
                  "-" if tr.recog is None else tr.recog[0] + ":" + hx(tr.recog[1])] + ast_metas(tr.metas)
    if spec.rules is None:
        t.append("R-")
    else:
        t += ["R", str(len(spec.rules))]
        for r in spec.rules:
            t += ["r", hx(r.name), "-" if r.annotation is None else hx(r.annotation)] + ast_metas(r.metas)
            t.append(str(len(r.alts)))
            for alt in r.alts:
                t += ["a", str(len(alt.assigns))]
                for a in alt.assigns:
                    t += ([a.kind, hx(a.name)] if a.kind in "pb" else ["g"]) + ast_ref(a.ref)
                t += ast_metas(alt.metas)
    return " ".join(t)


# ---------------------------------------------------------------------------------------------
# parsing the grammar records (hook dump / Lean driver answer)
# ---------------------------------------------------------------------------------------------

def parse_records(body):
    """'grammar … | term … | nonterm … | prod … | end' -> dict with canonical field lists"""
    g = {"terms": [], "nonterms": [], "prods": [], "head": None}
    for rec in body.split(" | "):
        f = rec.split()
        if not f or f[0] == "end":
            continue
        if f[0] == "grammar":
            g["head"] = f[1:]
            g["nterms"], g["nnonterms"], g["nprods"] = int(f[1]), int(f[2]), int(f[3])
            g["empty"], g["stop"], g["aug"] = int(f[4]), int(f[5]), int(f[6])
            g["augl"] = None if f[7] == "-" else int(f[7])
            g["start"] = int(f[8])
        elif f[0] == "term":
            n = int(f[9])
            g["terms"].append({"idx": int(f[1]), "name": unhx(f[2]).decode(), "prio": int(f[3]), "assoc": f[4],
                               "rec": f[5], "has_content": f[6] == "1", "reachable": f[7] == "1",
                               "annotation": None if f[8] == "-" else unhx(f[8]).decode(),
                               "meta": dict(x.split("=", 1) if not x.startswith("=") else ("=", x[2:]) for x in f[10:10 + n])})
        elif f[0] == "nonterm":
            n = int(f[5])
            g["nonterms"].append({"idx": int(f[1]), "name": unhx(f[2]).decode(), "reachable": f[3] == "1",
                                  "annotation": None if f[4] == "-" else unhx(f[4]).decode(),
                                  "prods": [int(x) for x in f[6:6 + n]]})
        elif f[0] == "prod":
            n = int(f[10])
            rhs = []
            for x in f[11:11 + n]:
                s, nm_, b = x.split(":")
                rhs.append((int(s), None if nm_ == "-" else unhx(nm_).decode(), b == "1"))
            k = int(f[11 + n])
            g["prods"].append({"idx": int(f[1]), "nt": int(f[2]), "ntidx": int(f[3]),
                               "kind": None if f[4] == "-" else unhx(f[4]).decode(), "prio": int(f[5]),
                               "assoc": f[6], "nops": f[7] == "1", "nopse": f[8] == "1", "dynamic": f[9] == "1",
                               "rhs": rhs,
                               "meta": dict(x.split("=", 1) for x in f[12 + n:12 + n + k])})
    return g


def canon_records(body):
    """whitespace-insensitive canonical form for the correspondence diff"""
    return [" ".join(rec.split()) for rec in body.split(" | ") if rec.split()]


# ---------------------------------------------------------------------------------------------
# documented meaning (structural oracle, independent of the Lean model)
# ---------------------------------------------------------------------------------------------

def meta_merge(ms):
    """items of one {...}: later items replace earlier ones of the same datum; reduce=left, shift=right"""
    d = {}
    for m in ms:
        if m[0] == "k":
            k = {"reduce": "left", "shift": "right", "nofinish": "finish"}.get(m[1], m[1])
            d[k] = ("b", m[1] != "nofinish")
        elif m[0] == "i":
            d["priority"] = ("i", m[1])
        elif m[0] == "K":
            d["kind"] = ("s", m[1])
        else:
            d[m[1]] = m[2]
    return d


def doc_inherit(rule_d, alt_d):
    """'If a meta-data is applied to the grammar rule it is in effect for all production of the rule, but if
    the same meta-data is defined for the production it takes precedence.'  Associativity (left/right) is
    ONE meta-datum."""
    out = dict(alt_d)
    alt_has_assoc = "left" in alt_d or "right" in alt_d
    for k, v in rule_d.items():
        if k in ("left", "right"):
            if not alt_has_assoc:
                out[k] = v
        elif k not in out:
            out[k] = v
    return out


def doc_fields(d):
    """production fields the documented meta-data denote; remaining keys are user meta-data"""
    prio = int(d["priority"][1]) if "priority" in d and d["priority"][0] == "i" else 10
    kind = d["kind"][1] if "kind" in d and d["kind"][0] == "s" else None
    assoc = "R" if "right" in d else ("L" if "left" in d else "N")
    user = {k: v for k, v in d.items() if k not in ("priority", "kind", "left", "right", "nops", "nopse")}
    return {"prio": prio, "kind": kind, "assoc": assoc, "nops": "nops" in d, "nopse": "nopse" in d, "user": user}


def val_dump(v):
    if v[0] == "i":
        return "i:" + str(int(v[1]))
    if v[0] == "f":
        return "f:" + v[2]
    if v[0] == "b":
        return "b:" + ("true" if v[1] else "false")
    return "s:" + hx(v[1])


class DocFail(Exception):
    def __init__(self, tag, why):
        super().__init__(why)
        self.tag = tag
        self.why = why


def sym_name(g, s):
    """name of a symbol index of the dump, interpreted by POSITION as the compiler does"""
    if s < g["nterms"]:
        return ("T", g["terms"][s]["name"]) if s < len(g["terms"]) else ("?", str(s))
    k = s - g["nterms"]
    return ("N", g["nonterms"][k]["name"]) if k < len(g["nonterms"]) else ("?", str(s))


def doc_check(spec, g):
    """Checks the dump `g` of the grammar the compiler built against the documented meaning of `spec`.
    Returns a list of (tag, why).  Tags: consistency, start, layout, alternatives, empty, inline, resolve, meta, assoc,
    helper-shape, helper-shared, terminals."""
    bad = []

    def fail(tag, why):
        bad.append((tag, why))

    # O1 index consistency
    for i, t in enumerate(g["terms"]):
        if t["idx"] != i:
            fail("consistency", f"terminal at position {i} has idx {t['idx']}")
    for i, n in enumerate(g["nonterms"]):
        if n["idx"] != i:
            fail("consistency", f"nonterminal at position {i} has idx {n['idx']}")
    for i, p in enumerate(g["prods"]):
        if p["idx"] != i:
            fail("consistency", f"production at position {i} has idx {p['idx']}")
        for (s, _, _) in p["rhs"]:
            if s >= g["nterms"] + len(g["nonterms"]):
                fail("consistency", f"production {i} refers to symbol {s} out of range")
    for n in g["nonterms"]:
        exp = [p["idx"] for p in g["prods"] if p["nt"] == n["idx"]]
        if n["prods"] != exp:
            fail("consistency", f"nonterminal {n['name']} lists productions {n['prods']}, its productions are {exp}")
    if g["nterms"] != len(g["terms"]) or g["nnonterms"] != len(g["nonterms"]) or g["nprods"] != len(g["prods"]):
        fail("consistency", "header counts differ from the records")
    if bad:
        return bad
    nt_by_name = {}
    for n in g["nonterms"]:
        if n["name"] in nt_by_name:
            fail("consistency", f"two nonterminals named {n['name']}")
        nt_by_name[n["name"]] = n
    t_by_name = {}
    for t in g["terms"]:
        if t["name"] in t_by_name:
            fail("consistency", f"two terminals named {t['name']}")
        t_by_name[t["name"]] = t
    rules = spec.rules or []
    terms = spec.terms or []
    # O7 terminals
    if [t["name"] for t in g["terms"]] != ["STOP"] + [t.name for t in terms]:
        fail("terminals", "terminal list is not STOP followed by the declared terminals in order")
    else:
        for t, d in zip(terms, g["terms"][1:]):
            md = meta_merge(t.metas)
            prio = int(md["priority"][1]) if "priority" in md and md["priority"][0] == "i" else 10
            assoc = "L" if "left" in md else ("R" if "right" in md else "N")
            rec = "-" if t.recog is None else t.recog[0] + ":" + hx(t.recog[1])
            hc = not (t.recog is not None and t.recog[0] == "S")
            if (d["prio"], d["assoc"], d["rec"], d["has_content"], d["annotation"]) != (prio, assoc, rec, hc, t.annotation):
                fail("terminals", f"terminal {t.name}: prio/assoc/recognizer/has_content/annotation "
                                  f"{(d['prio'], d['assoc'], d['rec'], d['has_content'], d['annotation'])} expected "
                                  f"{(prio, assoc, rec, hc, t.annotation)}")
            um = {k: v for k, v in md.items() if k not in ("priority",) and not (k == "left") and
                  not (k == "right" and "left" not in md)}
            if {hx(k): val_dump(v) for k, v in um.items()} != d["meta"]:
                fail("terminals", f"terminal {t.name}: user meta-data {d['meta']}")
    if not rules:
        return bad
    # O2 start symbol, augmented productions
    first = rules[0].name
    if first not in nt_by_name or g["start"] != g["nterms"] + nt_by_name[first]["idx"]:
        fail("start", f"start symbol is not the first rule {first}")
    aug = g["nonterms"][g["aug"] - g["nterms"]] if g["nterms"] <= g["aug"] < g["nterms"] + len(g["nonterms"]) else None
    if aug is None or aug["name"] != "AUG" or len(aug["prods"]) != 1 or \
            [s for (s, _, _) in g["prods"][aug["prods"][0]]["rhs"]] != [g["start"]]:
        fail("start", "AUG is not the single production AUG -> <first rule>")
    lay = [r.name for r in rules if r.name.lower() == "layout"]
    if lay:
        augl = g["nonterms"][g["augl"] - g["nterms"]] if g["augl"] is not None and \
            g["nterms"] <= g["augl"] < g["nterms"] + len(g["nonterms"]) else None
        if augl is None or augl["name"] != "AUGL" or len(augl["prods"]) != 1 or lay[0] not in nt_by_name or \
                [s for (s, _, _) in g["prods"][augl["prods"][0]]["rhs"]] != [g["nterms"] + nt_by_name[lay[0]]["idx"]]:
            fail("layout", "AUGL is not the single production AUGL -> <layout rule>")
    elif g["augl"] is not None:
        fail("layout", "AUGL without a Layout rule")
    # terminal a string literal denotes
    by_string = {}
    for t in terms:
        if t.recog is not None and t.recog[0] == "S":
            by_string.setdefault(t.recog[1], []).append(t.name)
    rule_names = [r.name for r in rules]
    term_names = ["STOP"] + [t.name for t in terms]
    # O3..O6 alternatives
    use_helper = {}        # (base, kind, sep) -> helper nonterminal name in the dump
    helper_nts = set()     # names of all helper nonterminals met (the inner one-or-more of `*` included)
    pos_in_nt = {}
    for r in rules:
        if r.name not in nt_by_name:
            fail("alternatives", f"no nonterminal for rule {r.name}")
            continue
        n = nt_by_name[r.name]
        rd = meta_merge(r.metas)
        for alt in r.alts:
            k = pos_in_nt.get(r.name, 0)
            pos_in_nt[r.name] = k + 1
            if k >= len(n["prods"]):
                fail("alternatives", f"rule {r.name}: alternative {k} has no production")
                continue
            p = g["prods"][n["prods"][k]]
            want = [a for a in alt.assigns if not (a.ref.sym == ("n", "EMPTY"))]
            if len(want) != len(p["rhs"]):
                kindtag = "empty" if any(sym_name(g, s) == ("N", "EMPTY") for (s, _, _) in p["rhs"]) else "alternatives"
                fail(kindtag, f"rule {r.name} alternative {k}: {len(p['rhs'])} symbols, expected {len(want)} "
                              f"(EMPTY contributes nothing)")
                continue
            for a, (s, aname, abool) in zip(want, p["rhs"]):
                if aname != (a.name if a.kind in "pb" else None) or abool != (a.kind == "b"):
                    fail("alternatives", f"rule {r.name} alternative {k}: assignment name/bool flag differ")
                kind, name = sym_name(g, s)
                # the base symbol
                if a.ref.sym[0] == "s":
                    cands = by_string.get(a.ref.sym[1], [])
                    base = None
                    if a.ref.rep is None:
                        if kind != "T" or g["terms"][s]["rec"] != "S:" + hx(a.ref.sym[1]):
                            fail("inline", f"rule {r.name} alternative {k}: {a.ref.sym[1]!r} resolves to {kind}:{name}")
                        continue
                    base = [c for c in cands]
                elif a.ref.sym[0] == "n":
                    base = [a.ref.sym[1]]
                    if a.ref.rep is None:
                        exp = ("T", base[0]) if base[0] in term_names else ("N", base[0])
                        if (kind, name) != exp:
                            fail("resolve", f"rule {r.name} alternative {k}: {base[0]} resolves to {kind}:{name}")
                        continue
                else:
                    continue
                # a use of repetition sugar: the symbol must be a helper nonterminal with the documented expansion
                op = a.ref.rep[0]
                sep = a.ref.rep[1][0] if a.ref.rep[1] else None
                if op == "?":
                    sep = None
                if kind != "N":
                    fail("helper-shape", f"rule {r.name} alternative {k}: sugar resolves to {kind}:{name}")
                    continue
                inner = []
                why = helper_shape(g, s, base, op, sep, term_names, inner)
                helper_nts.update(inner)
                helper_nts.add(name)
                if why:
                    fail("helper-shape", f"rule {r.name} alternative {k}: {text_ref(a.ref)} -> {name}: {why}")
                if name in rule_names:
                    fail("helper-shared", f"rule {r.name} alternative {k}: {text_ref(a.ref)} uses the user rule {name}")
                bkey = tuple(base)
                for key, h in use_helper.items():
                    if (key == (bkey, op, sep)) != (h == name):
                        fail("helper-shared", f"uses {key} and {(bkey, op, sep)} share/do not share helpers {h}/{name}")
                use_helper[(bkey, op, sep)] = name
            # meta-data
            fd = doc_fields(doc_inherit(rd, meta_merge(alt.metas)))
            if p["assoc"] != fd["assoc"]:
                fail("assoc", f"rule {r.name} alternative {k}: associativity {p['assoc']}, documented {fd['assoc']}")
            got = (p["prio"], p["kind"], p["nops"], p["nopse"])
            if got != (fd["prio"], fd["kind"], fd["nops"], fd["nopse"]):
                fail("meta", f"rule {r.name} alternative {k}: prio/kind/nops/nopse {got}, documented "
                             f"{(fd['prio'], fd['kind'], fd['nops'], fd['nopse'])}")
            if {hx(k_): val_dump(v) for k_, v in fd["user"].items()} != p["meta"]:
                fail("meta", f"rule {r.name} alternative {k}: user meta-data {p['meta']}")
    for r in rules:
        if r.name in nt_by_name and pos_in_nt.get(r.name, 0) != len(nt_by_name[r.name]["prods"]) \
                and r.name not in [x for x in use_helper.values()]:
            fail("alternatives", f"rule {r.name}: {len(nt_by_name[r.name]['prods'])} productions for "
                                 f"{pos_in_nt.get(r.name, 0)} alternatives")
    # reachability flags: least set containing the start rule and closed under "symbols of its productions"
    seen = set()
    todo = [g["start"]]
    while todo:
        x = todo.pop()
        if x in seen:
            continue
        seen.add(x)
        if x >= g["nterms"]:
            for p in g["nonterms"][x - g["nterms"]]["prods"]:
                todo += [s for (s, _, _) in g["prods"][p]["rhs"]]
    for i, t in enumerate(g["terms"]):
        if t["reachable"] != (i in seen):
            fail("reachable", f"terminal {t['name']} reachable flag is {t['reachable']}")
    for i, n in enumerate(g["nonterms"]):
        if n["reachable"] != ((g["nterms"] + i) in seen):
            fail("reachable", f"nonterminal {n['name']} reachable flag is {n['reachable']}")
    # no EMPTY symbol inside a right-hand side
    for p in g["prods"]:
        if any(s == g["empty"] for (s, _, _) in p["rhs"]):
            fail("empty", f"production {p['idx']} contains the EMPTY symbol")
    # nothing but AUG, AUGL, EMPTY, rules and helpers
    allowed = {"EMPTY", "AUG", "AUGL"} | set(rule_names) | helper_nts
    for n in g["nonterms"]:
        if n["name"] not in allowed:
            fail("alternatives", f"unexpected nonterminal {n['name']}")
    return bad


def helper_shape(g, s, base, op, sep, term_names, inner_out=None):
    """is symbol s a nonterminal whose productions are the documented expansion of base op [sep]?
    (names of inner helper nonterminals are appended to inner_out)"""
    n = g["nonterms"][s - g["nterms"]]
    rhss = [[x for (x, _, _) in g["prods"][p]["rhs"]] for p in n["prods"]]
    plain = all(g["prods"][p]["prio"] == 10 and g["prods"][p]["assoc"] == "N" and not g["prods"][p]["meta"]
                and all(nm_ is None and not b for (_, nm_, b) in g["prods"][p]["rhs"]) for p in n["prods"])
    if not plain:
        return "helper productions carry meta-data or assignments"

    def is_base(x):
        kind, name = sym_name(g, x)
        return name in base and kind == ("T" if name in term_names else "N")

    def is_sym(x, nm_):
        kind, name = sym_name(g, x)
        return name == nm_ and kind == ("T" if nm_ in term_names else "N")
    if op == "?":
        if len(rhss) == 2 and len(rhss[0]) == 1 and is_base(rhss[0][0]) and rhss[1] == []:
            return None if n["annotation"] is None else "optional helper is annotated"
        return f"productions {rhss} are not `X | EMPTY`"
    if op == "+":
        if n["annotation"] != "vec":
            return "one-or-more helper is not @vec"
        if len(rhss) == 2 and len(rhss[1]) == 1 and is_base(rhss[1][0]):
            if sep is None and len(rhss[0]) == 2 and rhss[0][0] == s and is_base(rhss[0][1]):
                return None
            if sep is not None and len(rhss[0]) == 3 and rhss[0][0] == s and is_sym(rhss[0][1], sep) and is_base(rhss[0][2]):
                return None
        return f"productions {rhss} are not `H {sep or ''} X | X`"
    if op == "*":
        if n["annotation"] != "vec":
            return "zero-or-more helper is not @vec"
        if len(rhss) == 2 and len(rhss[0]) == 1 and rhss[1] == [] and g["nterms"] <= rhss[0][0]:
            if inner_out is not None:
                inner_out.append(sym_name(g, rhss[0][0])[1])
            inner = helper_shape(g, rhss[0][0], base, "+", sep, term_names)
            return None if inner is None else "inner one-or-more: " + inner
        return f"productions {rhss} are not `X1 | EMPTY`"
    return "unsupported operator"


# ---------------------------------------------------------------------------------------------
# documented expansion of the sugar, written out by hand (language oracle)
# ---------------------------------------------------------------------------------------------

def expand(spec):
    """Plain-BNF spec with the documented expansions; one fresh rule per distinct use (base, op, sep).
    Only for specs whose bases are names (or declared strings) and whose operators are ? * +."""
    by_string = {}
    for t in spec.terms or []:
        if t.recog is not None and t.recog[0] == "S":
            by_string[t.recog[1]] = t.name
    helpers = {}
    extra = []

    def helper(base, op, sep):
        key = (base, op, sep)
        if key in helpers:
            return helpers[key]
        name = f"H{len(helpers)}x"
        helpers[key] = name
        if op == "?":
            extra.append(Rule(name, [Alt([Assign(Ref(("n", base)))]), Alt([Assign(Ref(("n", "EMPTY")))])]))
        elif op == "+":
            mid = [Assign(Ref(("n", sep)))] if sep else []
            extra.append(Rule(name, [Alt([Assign(Ref(("n", name)))] + mid + [Assign(Ref(("n", base)))]),
                                     Alt([Assign(Ref(("n", base)))])]))
        else:
            one = helper(base, "+", sep)
            extra.append(Rule(name, [Alt([Assign(Ref(("n", one)))]), Alt([Assign(Ref(("n", "EMPTY")))])]))
        return name
    rules = []
    for r in spec.rules:
        alts = []
        for alt in r.alts:
            asg = []
            for a in alt.assigns:
                if a.ref.sym == ("n", "EMPTY"):
                    continue            # EMPTY contributes nothing
                base = a.ref.sym[1] if a.ref.sym[0] == "n" else by_string[a.ref.sym[1]]
                if a.ref.rep is None:
                    asg.append(Assign(Ref(("n", base))))
                else:
                    op = a.ref.rep[0]
                    sep = a.ref.rep[1][0] if (a.ref.rep[1] and op != "?") else None
                    asg.append(Assign(Ref(("n", helper(base, op, sep)))))
            alts.append(Alt(asg if asg else [Assign(Ref(("n", "EMPTY")))]))
        rules.append(Rule(r.name, alts))
    return Spec(rules + extra, [TermRule(t.name, t.recog) for t in spec.terms or []], tag="expanded")


def bnf_of_dump(g):
    """(prods as (lhs symbol, [rhs symbols]), start symbol, terminal names by symbol) of a parsed dump"""
    return [(g["nterms"] + p["nt"], [s for (s, _, _) in p["rhs"]]) for p in g["prods"]], g["start"]


# ---------------------------------------------------------------------------------------------
# generators
# ---------------------------------------------------------------------------------------------

TNAMES = ["Ta", "Tb", "Tc", "Td", "Te"]
TCHARS = {"Ta": "a", "Tb": "b", "Tc": "c", "Td": "d", "Te": "e"}
NTNAMES = ["S", "A", "B", "C"]
ANAMES = ["x", "y", "left_", "val", "b1"]


def base_terms(n=4):
    return [TermRule(t, ("S", TCHARS[t])) for t in TNAMES[:n]]


def gen_sugar(rng, clash=False, named=True):
    """`? * + [sep]` on terminals and nonterminals, repeated identical and (if clash) near-identical uses"""
    nnt = rng.randint(1, 3)
    nts = NTNAMES[:nnt]
    terms = base_terms(rng.randint(2, 4))
    tn = [t.name for t in terms]
    pool = []
    for _ in range(rng.randint(1, 3)):
        base = rng.choice(tn + nts[1:] if len(nts) > 1 else tn)
        op = rng.choice(["?", "*", "+"])
        sep = None
        if op != "?" and rng.random() < 0.4:
            sep = rng.choice([t for t in tn if t != base] or tn)
        pool.append((base, op, sep))
    if clash:
        b, op, sep = rng.choice(pool)
        if op == "?":
            op = "+"
        other = rng.choice([None] + [t for t in tn if t != sep and t != b])
        pool.append((b, rng.choice(["*", "+"]), other if other != sep else None))
        pool.append((b, op, sep))
    else:
        # no two uses of one base/kind with different separators ('*' also creates the '+' helper)
        seen = {}
        clean = []
        for (b, op, sep) in pool:
            kinds = ["?"] if op == "?" else ["+"]
            ok = True
            for k in kinds:
                if (b, k) in seen and seen[(b, k)] != sep:
                    ok = False
            if ok:
                for k in kinds:
                    seen[(b, k)] = sep
                clean.append((b, op, sep))
        pool = clean or [(tn[0], "+", None)]
    rules = []
    for i, nt in enumerate(nts):
        alts = []
        for _ in range(rng.randint(1, 3)):
            asg = []
            for _ in range(rng.randint(1, 4)):
                r = rng.random()
                if r < 0.5:
                    b, op, sep = rng.choice(pool)
                    sym = ("n", b)
                    if b in TCHARS and rng.random() < 0.25:
                        sym = ("s", TCHARS[b])
                    ref = Ref(sym, (op, [sep] if sep else None))
                elif r < 0.8:
                    t = rng.choice(tn)
                    ref = Ref(("s", TCHARS[t])) if rng.random() < 0.3 else Ref(("n", t))
                else:
                    ref = Ref(("n", rng.choice(nts)))
                if named and rng.random() < 0.3:
                    asg.append(Assign(ref, rng.choice("pb"), rng.choice(ANAMES)))
                else:
                    asg.append(Assign(ref))
            alts.append(Alt(asg))
        if rng.random() < 0.25:
            alts.append(Alt([Assign(Ref(("n", "EMPTY")))]))
        # keep A: A (infinite recursion diagnostics) out of this family
        alts = [a for a in alts if not (len(a.assigns) == 1 and a.assigns[0].ref.sym == ("n", nt)
                                        and a.assigns[0].ref.rep is None)] or [Alt([Assign(Ref(("n", tn[0])))])]
        rules.append(Rule(nt, alts))
    return Spec(rules, terms, tag="sugar-clash" if clash else "sugar")


def gen_sugar_lr(rng):
    """sugar in LR(1)-friendly positions (each repetition closed by a distinct terminal), so that the real
    parser built from the grammar can be driven by the language oracle"""
    terms = base_terms(5)
    items = []
    closers = ["Td", "Te"]
    n = rng.randint(1, 2)
    used_sep = {}
    for i in range(n):
        base = rng.choice(["Ta", "A"])
        op = rng.choice(["?", "*", "+"])
        sep = None
        if op != "?" and rng.random() < 0.5:
            sep = "Tc"
        key = (base, "?" if op == "?" else "+")
        if key in used_sep and used_sep[key] != sep:
            sep = used_sep[key]
        used_sep[key] = sep
        a = Assign(Ref(("n", base), (op, [sep] if sep else None)))
        if rng.random() < 0.3:
            a = Assign(a.ref, rng.choice("pb"), rng.choice(ANAMES))
        items += [a, Assign(Ref(("n", closers[i])))]
    rules = [Rule("S", [Alt(items)]), Rule("A", [Alt([Assign(Ref(("n", "Tb")))]),
                                                 Alt([Assign(Ref(("n", "Tb"))), Assign(Ref(("n", "Ta")))])])]
    if rng.random() < 0.3:
        rules[0].alts.append(Alt([Assign(Ref(("n", "Tc"))), Assign(Ref(("n", "EMPTY")))]))
    return Spec(rules, terms, tag="sugar-lr")


META_PROD = [("k", "left"), ("k", "right"), ("k", "reduce"), ("k", "shift"), ("k", "nops"), ("k", "nopse"),
             ("k", "dynamic"), ("i", "5"), ("i", "15"), ("i", "0"), ("i", "007"), ("i", "120"), ("K", "Add"),
             ("K", "Mul"), ("K", "P1"), ("u", "bla", ("i", "10")), ("u", "bla", ("i", "5")),
             ("u", "flag", ("b", True)), ("u", "flag", ("b", False)), ("u", "on", ("b", False)), ("u", "note", ("s", "some text")),
             ("u", "w", ("f",) + FLOATS[0]), ("u", "w", ("f",) + FLOATS[1]), ("u", "w", ("f",) + FLOATS[3]),
             ("u", "w", ("f",) + FLOATS[4]), ("u", "priority", ("i", "7")), ("u", "priority", ("s", "hi")),
             ("u", "kind", ("s", "Knd")), ("u", "kind", ("i", "3")), ("u", "z.y", ("i", "1"))]
META_TERM = [("k", "left"), ("k", "right"), ("k", "reduce"), ("k", "shift"), ("k", "prefer"), ("k", "finish"),
             ("k", "nofinish"), ("k", "dynamic"), ("i", "5"), ("i", "99"), ("i", "15"), ("u", "bla", ("i", "3")),
             ("u", "note", ("s", "t")), ("u", "w", ("f",) + FLOATS[2]), ("u", "priority", ("s", "x"))]


def gen_meta(rng, assoc_clash=None):
    """meta-data on rules, productions, terminals; assoc_clash: None = anything, False = never give a rule
    an associativity a production overrides"""
    terms = []
    for t in TNAMES[:rng.randint(2, 4)]:
        ms = rng.sample(META_TERM, rng.choice([0, 0, 1, 2, 3]))
        if rng.random() < 0.05:
            ms.append(("i", "100"))
        recog = ("S", TCHARS[t]) if rng.random() < 0.8 else ("R", rng.choice(["\\d+", "[a-z]+/x", "a|b"]))
        terms.append(TermRule(t, recog, ms, annotation=rng.choice([None, None, None, "ann"])))
    tn = [t.name for t in terms]
    nts = NTNAMES[:rng.randint(1, 3)]
    rules = []
    for nt in nts:
        rm = rng.sample(META_PROD, rng.choice([0, 1, 1, 2, 3]))
        alts = []
        for _ in range(rng.randint(1, 4)):
            asg = [Assign(Ref(("n", rng.choice(tn + nts)))) for _ in range(rng.randint(1, 3))]
            if len(asg) == 1 and asg[0].ref.sym == ("n", nt):
                asg.append(Assign(Ref(("n", tn[0]))))
            alts.append(Alt(asg, rng.sample(META_PROD, rng.choice([0, 0, 1, 2, 3]))))
        if assoc_clash is False:
            def assoc_keys(ms):
                return {{"reduce": "left", "shift": "right"}.get(m[1], m[1]) for m in ms if m[0] == "k" and
                        m[1] in ("left", "right", "reduce", "shift")}
            rk = assoc_keys(rm)
            for a in alts:
                ak = assoc_keys(a.metas)
                if ak and rk - ak:
                    a.metas = [m for m in a.metas if not (m[0] == "k" and m[1] in ("left", "right", "reduce", "shift"))]
        rules.append(Rule(nt, alts, rm, annotation=rng.choice([None, None, "vec", "foo"])))
    return Spec(rules, terms, tag="meta")


def gen_inline(rng):
    strs = ["a", "+", "==", "if", "x y", "a'b", 'q"r', '"', "x\"y'z", "\\", "\\n", "a\\tb", "\\\\", "ü", "*/", "{", "terminals"]
    terms = []
    used = rng.sample(strs, rng.randint(2, 5))
    for i, s in enumerate(used):
        terms.append(TermRule(f"K{i}", ("S", s)))
    if rng.random() < 0.3:     # two terminals with the same string: the later name wins
        terms.append(TermRule(rng.choice(["Dup", "A0dup", "K00"]), ("S", used[0])))
    if rng.random() < 0.5:
        terms.append(TermRule("Num", ("R", "\\d+")))
    if "a" in used and rng.random() < 0.5:   # a terminal NAMED like another terminal's string
        terms.append(TermRule("a", ("S", "zz")))
    undeclared = rng.random() < 0.3
    rules = []
    nts = NTNAMES[:rng.randint(1, 2)]
    for nt in nts:
        alts = []
        for _ in range(rng.randint(1, 3)):
            asg = []
            for _ in range(rng.randint(1, 3)):
                if undeclared and rng.random() < 0.3:
                    s = rng.choice([x for x in strs if x not in used] or ["zz"])
                else:
                    s = rng.choice(used)
                rep = None
                if rng.random() < 0.3:
                    rep = (rng.choice(["?", "*", "+"]), None)
                a = Assign(Ref(("s", s), rep))
                if rng.random() < 0.2:
                    a = Assign(Ref(("s", s), rep), "p", "lit")
                asg.append(a)
            if rng.random() < 0.3:
                asg.append(Assign(Ref(("n", rng.choice([t.name for t in terms])))))
            alts.append(Alt(asg))
        rules.append(Rule(nt, alts))
    return Spec(rules, terms, tag="inline")


def gen_names(rng):
    """helper-name clashes, keyword-like names, non-identifier kinds"""
    terms = base_terms(3)
    k = rng.randrange(12)
    T = lambda n: Assign(Ref(("n", n)))
    if k == 0:      # user rule named like the helper, defined after the use
        h = rng.choice(["A1", "A0", "AOpt"])
        op = {"A1": "+", "A0": "*", "AOpt": "?"}[h]
        rules = [Rule("S", [Alt([Assign(Ref(("n", "A"), (op, None))), T(h)])]), Rule(h, [Alt([T("Tb")])]),
                 Rule("A", [Alt([T("Ta")])])]
    elif k == 1:    # ... defined before the use
        h = rng.choice(["A1", "A0", "AOpt"])
        op = {"A1": "+", "A0": "*", "AOpt": "?"}[h]
        rules = [Rule("S", [Alt([T(h), T("X")])]), Rule(h, [Alt([T("Tb")])]),
                 Rule("X", [Alt([Assign(Ref(("n", "A"), (op, None)))])]), Rule("A", [Alt([T("Ta")])])]
    elif k == 2:    # rule that is its own helper (with a later rule referenced: index out of bounds)
        rules = [Rule("A1", [Alt([T("Tb"), Assign(Ref(("n", "A"), ("+", None)))])]), Rule("A", [Alt([T("Ta")])])]
        if rng.random() < 0.5:
            rules = [Rule("S", [Alt([T("A1"), T("B")])])] + rules + [Rule("B", [Alt([T("Ta")])])]
    elif k == 3:    # terminal named like a helper
        terms = terms + [TermRule("Ta1", ("S", "z"))]
        rules = [Rule("S", [Alt([Assign(Ref(("n", "Ta"), ("+", None))), T("Tb")])])]
    elif k == 4:    # Rust keywords / non identifiers as rule, terminal, assignment names
        w = rng.choice(RUST_KW[1:8] + ["fn", "type", "match", "async", "dyn", "try", "await", "A.b", "_", "_x", "r2.d2."])
        where = rng.choice(["rule", "term", "assign", "kind", "userkey", "sep", "ref"])
        rules = [Rule("S", [Alt([T("Ta"), T("Tb")])])]
        if w in KEYWORDS:
            w = "fn"
        if where == "rule":
            rules = [Rule("S", [Alt([T("Ta"), T(w)])]), Rule(w, [Alt([T("Tb")])])]
        elif where == "term":
            terms = terms + [TermRule(w, ("S", "w"))]
        elif where == "assign":
            rules = [Rule("S", [Alt([Assign(Ref(("n", "Ta")), rng.choice("pb"), w), T("Tb")])])]
        elif where == "kind":
            rules = [Rule("S", [Alt([T("Ta")], [("K", w)])])]
        elif where == "userkey":
            rules = [Rule("S", [Alt([T("Ta")], [("u", w, ("i", "1"))])])]
        elif where == "sep":
            rules = [Rule("S", [Alt([Assign(Ref(("n", "Ta"), ("+", [w])))])])]
        else:
            rules = [Rule("S", [Alt([T("Ta"), T(w)])])]
    elif k == 5:    # names that begin with a keyword of the grammar language
        # (only where the keyword itself cannot occur: inside `{...}` the keyword's string match beats the longer
        #  Name, and `terminalsX: …` after a rule starts the terminals section — see notes/C09.md, observation O2)
        w = rng.choice(["lefty", "asx", "importer", "true1", "nopsee", "shifted", "Left",
                        "finish_", "preferred", "dynamic2", "reduce_r"])
        rules = [Rule("S", [Alt([Assign(Ref(("n", w)), "p", w + "n"), T("Ta")], [("K", "K" + w), ("u", "u" + w, ("b", True))])]),
                 Rule(w, [Alt([T("Tb")])])]
    elif k == 6:    # builder-internal names
        w = rng.choice(["EMPTY", "AUG", "AUGL", "STOP"])
        where = rng.choice(["rule", "term", "ref"])
        if where == "rule":
            rules = [Rule("S", [Alt([T("Ta")])]), Rule(w, [Alt([T("Tb")])])]
            v = rng.randrange(4)
            if v == 1:      # as the first rule
                rules = [Rule(w, [Alt([T("Tb")])]), Rule("S", [Alt([T("Ta")])])]
            elif v == 2:    # and a terminal of that name: the reserved-name check comes first
                terms = terms + [TermRule(w, ("S", "w"))]
            elif v == 3:    # an earlier rule fails first
                rules = [Rule("S", [Alt([Assign(Ref(("n", "Ta")), "p", "fn")])]), Rule(w, [Alt([T("Tb")])])]
        elif where == "term":
            terms = terms + [TermRule(w, ("S", "w"))]
            rules = [Rule("S", [Alt([T("Ta"), Assign(Ref(("n", w)), "p", "v")])])]
        else:       # a reference: plain, named, under sugar, as separator; order w.r.t. other diagnostics
            v = rng.randrange(7)
            ref = T(w)
            if v == 1:
                ref = Assign(Ref(("n", w)), rng.choice("pb"), "x")
            elif v == 2:
                ref = Assign(Ref(("n", w), (rng.choice(["*", "+", "?"]), None)))
            elif v == 3:
                ref = Assign(Ref(("n", "Ta"), (rng.choice(["*", "+"]), [w])))
            asg = [T("Ta"), ref]
            if v == 4:
                asg = rng.choice([[T("Nope"), T(w)], [T(w), T("Nope")], [T("STOP"), T(w)], [T(w), T("STOP")]])
            rules = [Rule("S", [Alt(asg)])]
            if v == 5:      # only in an unreachable rule, with a Layout rule (AUGL exists)
                rules = [Rule("S", [Alt([T("Ta")])]), Rule("U", [Alt([T("Tb"), T(w)])]), Rule("Layout", [Alt([T("Tc")])])]
            elif v == 6:    # undefined inline strings are reported before
                rules = [Rule("S", [Alt([T(w), T("Ta")])]), Rule("B", [Alt([Assign(Ref(("s", "zz")))])])]
    elif k == 7:    # rule named like a terminal
        rules = [Rule("S", [Alt([T("Ta"), T("Tb")])]), Rule("Tb", [Alt([T("Tc")])])]
        if rng.random() < 0.5:
            rules = [Rule("Ta", [Alt([T("Tb")])])]
    elif k == 8:    # duplicate rule names: alternatives are merged
        rules = [Rule("S", [Alt([T("A")])]), Rule("A", [Alt([T("Ta")])], [("i", "3")]),
                 Rule("A", [Alt([T("Tb")]), Alt([T("Tc")])], [("k", "left")], annotation="vec")]
    elif k == 9:    # helper names that collide by concatenation
        rules = [Rule("S", [Alt([Assign(Ref(("n", "A"), ("+", ["B1C"]))), Assign(Ref(("n", "A1B"), ("+", ["C"])))])]),
                 Rule("A", [Alt([T("Ta")])]), Rule("A1B", [Alt([T("Tb")])]), Rule("B1C", [Alt([T("Tc")])]),
                 Rule("C", [Alt([T("Ta")])])]
    elif k == 10:   # sugar on a symbol named like a helper of another
        rules = [Rule("S", [Alt([Assign(Ref(("n", "A"), ("*", None))), Assign(Ref(("n", "A0"), ("?", None)))])]),
                 Rule("A", [Alt([T("Ta")])])]
    else:           # separator equal to the base, separator a nonterminal
        rules = [Rule("S", [Alt([Assign(Ref(("n", "Ta"), ("+", ["Ta"]))), Assign(Ref(("n", "Tb"), ("*", ["A"])))])]),
                 Rule("A", [Alt([T("Tc")])])]
    return Spec(rules, terms, tag=f"names{k}")


def gen_layout(rng):
    s = gen_sugar(rng, clash=False) if rng.random() < 0.5 else gen_meta(rng, assoc_clash=False)
    lname = rng.choice(["Layout", "Layout", "layout", "LAYOUT", "LayOut"])
    lay = [Rule(lname, [Alt([Assign(Ref(("n", "LayoutItem"), (rng.choice(["*", "+"]), None)))])]),
           Rule("LayoutItem", [Alt([Assign(Ref(("n", "WS")))]), Alt([Assign(Ref(("n", "Comment")))])])]
    if rng.random() < 0.2:
        lay.append(Rule("LAYOUT" if lname != "LAYOUT" else "Layout", [Alt([Assign(Ref(("n", "WS")))])]))
    pos = rng.choice(["end", "end", "start", "mid"])
    rules = s.rules + lay if pos == "end" else (lay + s.rules if pos == "start" else s.rules[:1] + lay + s.rules[1:])
    terms = s.terms + [TermRule("WS", ("R", "\\s+")), TermRule("Comment", ("R", "//.*"))]
    return Spec(rules, terms, tag="layout")


def gen_broken(rng):
    """malformed / unsupported inputs: every outcome class (ok / err kind / panic site)"""
    terms = base_terms(3)
    T = lambda n: Assign(Ref(("n", n)))
    k = rng.randrange(21)
    big = rng.choice(["4294967296", "99999999999", "18446744073709551616", "00004294967296"])
    if k == 0:      # undefined symbol
        rules = [Rule("S", [Alt([T("Ta"), T(rng.choice(["Nope", "s", "Ta2"]))])])]
    elif k == 1:    # duplicate terminals
        terms = terms + [TermRule(rng.choice(["Ta", "Tb", "Tc"]), ("S", "q"))]
        if rng.random() < 0.5:
            terms = terms + [TermRule("Ta", ("S", "r"))]
        if rng.random() < 0.3:      # many duplicates: the surviving index leaves the nonterminal vector
            terms = terms + [TermRule("Tc", ("S", "x")) for _ in range(rng.randint(3, 6))]
        rules = [Rule("S", [Alt([T("Ta"), T("Tb")]), Alt([T("Tc")])])]
    elif k == 2:    # terminals only
        return Spec(None, terms, tag="broken-terminals-only")
    elif k == 3:    # huge integers
        where = rng.choice(["rule", "alt", "term", "user", "termuser"])
        rules = [Rule("S", [Alt([T("Ta")])])]
        if where == "rule":
            rules[0].metas = [("i", big)]
        elif where == "alt":
            rules[0].alts[0].metas = [("k", "left"), ("i", big)]
        elif where == "term":
            terms[0].metas = [("i", big)]
        elif where == "user":
            rules[0].alts[0].metas = [("u", "bla", ("i", big))]
        else:
            terms[1].metas = [("u", "bla", ("i", big))]
    elif k == 4:    # the largest integers that fit
        rules = [Rule("S", [Alt([T("Ta")], [("i", "4294967295"), ("u", "m", ("i", "0004294967295"))])])]
    elif k == 5:    # non-ASCII digits match \d+
        rules = [Rule("S", [Alt([T("Ta")], [("i", rng.choice(["٣", "1٣", "９"]))])])]
    elif k == 6:    # parenthesised groups
        grp = rng.choice(["Ta Tb", "Ta | Tb", "Ta+ Tb {left}"])
        rep = rng.choice([None, ("+", None), ("*", ["Tc"]), ("?", None)])
        a = Assign(Ref(("G", grp), rep))
        if rng.random() < 0.3:
            a = Assign(Ref(("G", grp), rep), "p", "g")
        rules = [Rule("S", [Alt([T("Ta"), a])])]
    elif k == 7:    # greedy operators
        rules = [Rule("S", [Alt([Assign(Ref(("n", "Ta"), (rng.choice(["*!", "+!", "?!"]), rng.choice([None, ["Tb"]])))),
                                 T("Tb")])])]
    elif k == 8:    # several modifiers
        rules = [Rule("S", [Alt([Assign(Ref(("n", "Ta"), (rng.choice(["*", "+", "?"]), ["Tb", "Tc"])))])])]
    elif k == 9:    # STOP in a production: plain, named, under sugar, as separator; order w.r.t. other diagnostics
        v = rng.randrange(9)
        stop = T("STOP")
        if v == 1:
            stop = Assign(Ref(("n", "STOP")), rng.choice("pb"), "x")
        elif v == 2:
            stop = Assign(Ref(("n", "STOP"), (rng.choice(["*", "+", "?"]), None)))
        elif v == 3:
            stop = Assign(Ref(("n", "Ta"), (rng.choice(["*", "+"]), ["STOP"])))
        elif v == 4:
            stop = Assign(Ref(("n", "STOP"), ("+", ["Tb"])), "p", "x")
        asg = [T("Ta"), stop]
        if v == 5:      # an undefined name before / after: the first in rhs order is reported
            asg = rng.choice([[T("Nope"), T("STOP")], [T("STOP"), T("Nope")]])
        rules = [Rule("S", [Alt(asg)])]
        if v == 6:      # undefined inline strings are reported before any name
            rules = [Rule("S", [Alt([T("STOP"), T("Ta")])]), Rule("B", [Alt([Assign(Ref(("s", "zz")))])])]
        elif v == 7:    # only an unreachable rule refers to STOP; an earlier production has an unknown name
            rules = [Rule("S", [Alt([T("Ta")])]), Rule("U", [Alt([T("Tb"), T("STOP")])])]
            if rng.random() < 0.5:
                rules[0].alts[0].assigns.append(T("Nope"))
        elif v == 8:    # a rule / terminal named STOP
            if rng.random() < 0.5:
                rules = [Rule("S", [Alt([T("Ta")])]), Rule("STOP", [Alt([T("Tb")])])]
            else:
                terms = terms + [TermRule("STOP", ("S", "s"))]
                rules = [Rule("S", [Alt([T("Ta"), T("STOP")])])]
    elif k == 10:   # named EMPTY / EMPTY as separator / sugar on EMPTY
        v = rng.randrange(5)
        if v == 0:
            rules = [Rule("S", [Alt([Assign(Ref(("n", "EMPTY")), rng.choice("pb"), "e"), T("Ta")])])]
        elif v == 1:
            rules = [Rule("S", [Alt([Assign(Ref(("n", "Ta"), ("+", ["EMPTY"])))])])]
        elif v == 2:
            rules = [Rule("S", [Alt([Assign(Ref(("n", "EMPTY"), ("+", None))), T("Ta")])])]
        elif v == 3:
            rules = [Rule("S", [Alt([Assign(Ref(("n", "EMPTY"), ("*", None)), "p", "e"), T("Ta")])])]
        else:
            rules = [Rule("S", [Alt([T("Ta"), T("EMPTY"), T("Tb"), T("EMPTY")]), Alt([T("EMPTY"), T("EMPTY")])])]
    elif k == 11:   # direct self recursion
        rules = [Rule("S", [Alt([T("A")])]), Rule("A", [Alt([T("A")]), Alt([T("Ta")])])]
    elif k == 12:   # undeclared inline string, with and without sugar
        rep = rng.choice([None, ("+", None)])
        rules = [Rule("S", [Alt([T("Ta")])]), Rule("B", [Alt([Assign(Ref(("s", "zz"), rep))])])]
        if rng.random() < 0.5:
            rules[0].alts[0].assigns.append(T("Nope"))     # inline errors are reported before undefined symbols
    elif k == 13:   # terminal priority > 99
        terms[1].metas = [("i", rng.choice(["100", "255"]))]
        rules = [Rule("S", [Alt([T("Ta")])])]
    elif k == 14:   # terminal without recognizer
        terms = terms + [TermRule("NoRec", None, rng.choice([[], [("i", "3")]]))]
        rules = [Rule("S", [Alt([T("Ta"), T("NoRec")])])]
    elif k == 15:   # no terminals section at all
        return Spec([Rule("S", [Alt([T("A")])]), Rule("A", [Alt([T("S"), T("A")]), Alt([T("EMPTY")])])], None,
                    tag="broken-no-terminals")
    elif k == 16:   # sugar separator undefined / unreferenced helper content
        rules = [Rule("S", [Alt([Assign(Ref(("n", "Ta"), ("+", ["Nope"])))])])]
    elif k == 17:   # left and right on one terminal / production
        terms[0].metas = [("k", "left"), ("k", "right")]
        rules = [Rule("S", [Alt([T("Ta")], [("k", "right"), ("k", "left")])])]
    elif k == 18:   # unreachable rules and terminals
        rules = [Rule("S", [Alt([T("Ta")])]), Rule("U", [Alt([T("Tb"), Assign(Ref(("n", "V"), ("?", None)))])]),
                 Rule("V", [Alt([T("Tc")])])]
    elif k == 19:   # modifiers on ?
        rules = [Rule("S", [Alt([Assign(Ref(("n", "Ta"), ("?", ["Tb"]))), Assign(Ref(("n", "Ta"), ("?", None)))])])]
    else:           # production kinds that are no Rust identifiers: own, inherited, as string; order of diagnostics
        bad = rng.choice(["A.b", "fn", "type", "_", "x.y.z", "Self"])
        kind = ("K", bad) if rng.random() < 0.7 else ("u", "kind", ("s", rng.choice(["x y", "1a", "", "a-b", bad])))
        v = rng.randrange(8)
        a0 = Alt([T("Ta")], [("i", "5"), kind, ("k", "left")])
        rules = [Rule("S", [a0])]
        if v == 1:      # inherited from the rule; one alternative overrides it with a good kind
            rules = [Rule("S", [Alt([T("Tb")], [("K", "Good")]), Alt([T("Ta")])], [kind])]
        elif v == 2:    # a later item of the same {...} replaces the bad kind
            rules = [Rule("S", [Alt([T("Ta")], [kind, ("K", "Good")])])]
        elif v == 3:    # the alternative's rhs is processed first: invalid assignment name / undefined sugar string
            first = rng.choice([Assign(Ref(("n", "Ta")), "p", "fn"), Assign(Ref(("s", "zz"), ("+", None)))])
            rules = [Rule("S", [Alt([first], [kind])])]
        elif v == 4:    # ... but name resolution comes after all alternatives
            rules = [Rule("S", [Alt([T("Nope")], [kind])])]
        elif v == 5:    # a kind that is not a string is dropped without check
            rules = [Rule("S", [Alt([T("Ta")], [("u", "kind", rng.choice([("i", "3"), ("b", True), ("f",) + FLOATS[0]]))])])]
        elif v == 6:    # second alternative; the first one is fine and has created a helper
            rules = [Rule("S", [Alt([Assign(Ref(("n", "Ta"), ("+", None)))]), Alt([T("Tb")], [kind]),
                                Alt([Assign(Ref(("G", "Ta Tb")))])])]
        elif v == 7:    # on a terminal `kind` is plain user meta-data
            terms[0].metas = [("u", "kind", ("s", "x y"))]
            rules = [Rule("S", [Alt([T("Ta")])])]
    return Spec(rules, terms, tag=f"broken{k}")


RAW_TEXTS = ["", "   \n", "// only a comment\n", "S: Ta\nterminals\nTa: 'a';\n", "S: ;\nterminals\nTa: 'a';\n",
             "S: Ta;\nterminals\n", "terminals\n", "S: Ta {left: 3};\nterminals\nTa: 'a';\n", "S: Ta | ;\n",
             "S: Ta+[];\nterminals\nTa: 'a';\n", "S: Ta {};\nterminals\nTa: 'a';\n", "S: 'a;\n",
             "S: Ta;\nterminals\nTa: /a;\n", "S: (Ta;\nterminals\nTa: 'a';\n", "S: Ta { 1.5 };\nterminals\nTa: 'a';\n",
             "S: Ta;\nterminals\nTa: 'a' {nops};\n", "S: Ta {lefty};\nterminals\nTa: 'a';\n",
             "@ S: Ta;\nterminals\nTa: 'a';\n", "S: x==Ta;\nterminals\nTa: 'a';\n"]
# valid texts the AST renderer has no spec for: only "never a panic" is checked
RAW_VALID = ["import 'x'\nS: Ta;\nterminals\nTa: 'a';\n",
             "import 'x' as y\nimport \"z\"\nS: Ta;\nterminals\nTa: 'a';\n",
             "/* c */ S: Ta /* d */; // e\nterminals\nTa: 'a';\n"]

# documented-valid texts that are rejected today for a reason outside the builder (class id, text)
# O1 (repaired in repo 4815e49): BoolConst was compiled to `^true|false`; `false` was found ANYWHERE later in the text,
# so every ConstVal followed somewhere by the word `false` (and `false` itself after a space) was mis-lexed.
# The two texts stay in the corpus; the generator families use `false` again.
RAW_KNOWN = [("text:bool-false", "S: Ta {flag: false};\nterminals\nTa: 'a';\n"),
             ("text:bool-false", "S: Ta {bla: 5} | Tb {flag:false};\nterminals\nTa: 'a';\nTb: 'b';\n")]


def spec_of_ast(line):
    """inverse of render_ast (float source texts become their display text, group texts are lost)"""
    t = line.split(" ")
    pos = [0]

    def tok():
        pos[0] += 1
        return t[pos[0] - 1]

    def name(x):
        return unhx(x).decode()

    def metas():
        out = []
        for _ in range(int(tok())):
            f = tok().split(":")
            if f[0] == "k":
                out.append(("k", f[1]))
            elif f[0] == "i":
                out.append(("i", f[1]))
            elif f[0] == "K":
                out.append(("K", name(f[1])))
            else:
                v = {"i": lambda: ("i", f[3]), "f": lambda: ("f", name(f[3]), name(f[3])),
                     "b": lambda: ("b", f[3] == "1"), "s": lambda: ("s", name(f[3]))}[f[2]]()
                out.append(("u", name(f[1]), v))
        return out

    def ref():
        s_ = tok()
        sym = ("G", "Ta") if s_ == "G" else (s_[0], name(s_[2:]))
        r = tok()
        if r == "-":
            return Ref(sym)
        o, m = r.split(":")
        op = {v: k for k, v in OPS.items()}[o]
        mods = None if m == "-" else ([] if m == "." else [name(x) for x in m.split("+")])
        return Ref(sym, (op, mods))
    terms = None
    if tok() == "T":
        terms = []
        for _ in range(int(tok())):
            tok()
            n_ = name(tok())
            an = tok()
            rc = tok()
            terms.append(TermRule(n_, None if rc == "-" else (rc[0], name(rc[2:])), metas(),
                                  None if an == "-" else name(an)))
    rules = None
    if tok() == "R":
        rules = []
        for _ in range(int(tok())):
            tok()
            n_ = name(tok())
            an = tok()
            ms = metas()
            alts = []
            for _ in range(int(tok())):
                tok()
                asg = []
                for _ in range(int(tok())):
                    k = tok()
                    if k in "pb":
                        an_ = name(tok())
                        asg.append(Assign(ref(), k, an_))
                    else:
                        asg.append(Assign(ref()))
                alts.append(Alt(asg, metas()))
            rules.append(Rule(n_, alts, ms, None if an == "-" else name(an)))
    return Spec(rules, terms, tag="replay")
