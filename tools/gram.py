"""Abstract BNF grammars: random generation, rendering to .rustemo text, and an independent
derivation oracle (membership, derivation counting, tree enumeration, first offending token).

Everything random derives from the `random.Random` instance passed in.
Terminals are distinct single characters so that lexing cannot interfere (C01 scope)."""
import random
import itertools
from functools import lru_cache

NT_NAMES = ["S", "A", "B", "C", "D", "E", "F"]
T_CHARS = "abcdefgh"
U_CHARS = "aλ€b𝄞cd"      # 1, 2, 3, 1, 4, 1, 1 bytes
# terminals whose text spans lines (a multi-line string/heredoc kind of token): the END line/column of such a token and of
# everything that ends with it are not `start column + length`
M_CHARS = ["a\nb", "λ", "c\n", "b", "€\n\n€", "c", "d", "e"]


class Gram:
    """prods: list of (lhs_name, [symbol names]); terminals: dict name -> char."""

    def __init__(self, prods, terms, metas=None, prod_meta=None, term_meta=None, rule_meta=None, layout=None):
        self.layout = layout               # None | "ws" | "comments" | "nested"
        self.prods = prods
        self.terms = terms  # name -> recognizer string
        self.prod_meta = prod_meta or {}   # production index -> [meta strings]
        self.term_meta = term_meta or {}   # terminal name -> [meta strings]
        self.rule_meta = rule_meta or {}   # nonterminal name -> [meta strings]
        self.nts = []
        for l, _ in prods:
            if l not in self.nts:
                self.nts.append(l)
        # production order = the order rustemo numbers them: rules in order, alternatives in order
        order = sorted(range(len(prods)), key=lambda i: (self.nts.index(prods[i][0]), i))
        if order != list(range(len(prods))):
            remap = {old: new for new, old in enumerate(order)}
            self.prods = prods = [prods[i] for i in order]
            self.prod_meta = {remap[k]: v for k, v in self.prod_meta.items()}
        self.metas = metas or {}
        self._analyse()

    # ---------- rendering -------------------------------------------------------------
    def render(self):
        out = []
        for nt in self.nts:
            alts = []
            for i, (l, rhs) in enumerate(self.prods):
                if l == nt:
                    a = " ".join(rhs) if rhs else "EMPTY"
                    if rhs and getattr(self, "sprinkle_empty", 0) and (i * 7 + len(rhs)) % 3 == 0:
                        # an unnamed EMPTY next to other symbols contributes nothing (grammar language): same grammar
                        k = (i + self.sprinkle_empty) % (len(rhs) + 1)
                        a = " ".join(rhs[:k] + ["EMPTY"] + rhs[k:])
                    if self.prod_meta.get(i):
                        a += " {" + ", ".join(self.prod_meta[i]) + "}"
                    alts.append(a)
            rm = (" {" + ", ".join(self.rule_meta[nt]) + "}") if self.rule_meta.get(nt) else ""
            out.append(f"{nt}{rm}: {' | '.join(alts)};")
        ln = getattr(self, "layout_name", "Layout")       # the rule is recognised by its lower-cased name
        if self.layout == "ws":
            out.append(ln + ": LayoutItem+;\nLayoutItem: WS;")
        elif self.layout == "comments":
            out.append(ln + ": LayoutItem*;\nLayoutItem: WS | CommentLine;")
        elif self.layout == "nested":
            out.append(ln + ": LayoutItem*;\nLayoutItem: WS | Comment;\nComment: '/*' Corncs '*/' | CommentLine;\n"
                       "Corncs: Cornc*;\nCornc: Comment | NotComment | WS;")
        if self.terms or self.layout:
            out.append("terminals")
            for n, c in self.terms.items():
                tm = (" {" + ", ".join(self.term_meta[n]) + "}") if self.term_meta.get(n) else ""
                c = c.replace("\n", "\\n")
                out.append(f"{n}: '{c}'{tm};")
            if self.layout:
                out.append("WS: /\\s+/;")
            if self.layout in ("comments", "nested"):
                out.append("CommentLine: /\\/\\/.*/;")
            if self.layout == "nested":
                out.append("CommentStart: '/*';\nCommentEnd: '*/';\nNotComment: /((\\*[^\\/])|[^\\s*\\/]|\\/[^\\*])+/;")
        return "\n".join(out) + "\n"

    # ---------- analysis --------------------------------------------------------------
    def _analyse(self):
        self.by_lhs = {nt: [] for nt in self.nts}
        for i, (l, rhs) in enumerate(self.prods):
            self.by_lhs[l].append((i, rhs))
        nullable = set()
        ch = True
        while ch:
            ch = False
            for l, rhs in self.prods:
                if l not in nullable and all(s in nullable for s in rhs):
                    nullable.add(l)
                    ch = True
        self.nullable = nullable
        INF = 10 ** 9
        ml = {nt: INF for nt in self.nts}
        for t in self.terms:
            ml[t] = 1
        ch = True
        best = {}
        while ch:
            ch = False
            for i, (l, rhs) in enumerate(self.prods):
                v = sum(ml.get(s, INF) for s in rhs)
                if v < ml[l]:
                    ml[l] = v
                    best[l] = i
                    ch = True
        self.minlen = ml
        self.best = best
        self.productive = {s for s in ml if ml[s] < INF}

    def undefined_symbols(self):
        return {s for _, rhs in self.prods for s in rhs if s not in self.by_lhs and s not in self.terms}

    def all_productive(self):
        return all(nt in self.productive for nt in self.nts)

    def reachable(self):
        seen = {self.nts[0]}
        todo = [self.nts[0]]
        while todo:
            x = todo.pop()
            for _, rhs in self.by_lhs.get(x, []):
                for s in rhs:
                    if s not in seen:
                        seen.add(s)
                        todo.append(s)
        return seen

    def is_cyclic(self):
        """A =>+ A for some nonterminal (unit/nullable-context cycles)."""
        edges = {nt: set() for nt in self.nts}
        for l, rhs in self.prods:
            for i, s in enumerate(rhs):
                if s in edges and all(x in self.nullable for j, x in enumerate(rhs) if j != i):
                    edges[l].add(s)
        # cycle detection
        color = {}

        def dfs(u):
            color[u] = 1
            for v in edges[u]:
                if color.get(v) == 1:
                    return True
                if v not in color and dfs(v):
                    return True
            color[u] = 2
            return False

        return any(nt not in color and dfs(nt) for nt in self.nts)

    def eps_ambiguous(self, cap=3):
        """some nonterminal derives the empty string in more than one way (grammar must be acyclic)."""
        toks = ()
        o = Oracle(self, toks)
        try:
            return any(o.count(nt, 0, 0) > 1 for nt in self.nts if nt in self.nullable)
        except CyclicGrammar:
            return True

    def in_glr_scope(self):
        return (not self.undefined_symbols()) and self.all_productive() and not self.is_cyclic() \
            and not self.eps_ambiguous()


class CyclicGrammar(Exception):
    pass


class Oracle:
    """Independent derivation oracle for one grammar and one token string (list of terminal names)."""

    def __init__(self, g, toks, cap=10 ** 6):
        self.g = g
        self.w = tuple(toks)
        self.cap = cap
        self._c = {}
        self._busy = set()
        self._cs = {}
        self._t = {}

    def count(self, X, i, j):
        """number of derivation trees of w[i:j] from X. Same-span dependencies (unit / nullable-context
        chains) are followed only through non-zero factors, so for acyclic grammars no key is ever
        re-entered; a re-entry means a cyclic derivation and raises CyclicGrammar."""
        g = self.g
        if X in g.terms:
            return 1 if j == i + 1 and self.w[i] == X else 0
        if X not in g.by_lhs:
            return 0
        key = (X, i, j)
        if key in self._c:
            return self._c[key]
        if key in self._busy:
            raise CyclicGrammar(key)
        self._busy.add(key)
        try:
            tot = 0
            for _, rhs in g.by_lhs[X]:
                tot += self.count_seq(tuple(rhs), i, j)
        finally:
            self._busy.discard(key)
        tot = min(tot, self.cap)
        self._c[key] = tot
        return tot

    def count_seq(self, rhs, i, j):
        if not rhs:
            return 1 if i == j else 0
        g = self.g
        need = sum(g.minlen.get(s, 10 ** 9) for s in rhs)
        if need > j - i:
            return 0
        if len(rhs) == 1:
            return self.count(rhs[0], i, j)
        key = (rhs, i, j)
        if key in self._cs:
            return self._cs[key]
        tot = 0
        head, tail = rhs[0], rhs[1:]
        for k in range(i, j + 1):
            if k - i <= j - k:
                # head has the smaller (or equal) span: evaluate it first
                h = self.count(head, i, k)
                if h:
                    tot += h * self.count_seq(tail, k, j)
            else:
                t = self.count_seq(tail, k, j)
                if t:
                    tot += self.count(head, i, k) * t
        tot = min(tot, self.cap)
        self._cs[key] = tot
        return tot

    def sentence(self):
        return self.count(self.g.nts[0], 0, len(self.w)) > 0

    def ntrees(self):
        return self.count(self.g.nts[0], 0, len(self.w))

    # trees as nested tuples ("N", prod_index, [children]) / ("T", name, index)
    def trees(self, X, i, j, limit=2000):
        g = self.g
        if X in g.terms:
            return [("T", X, i)] if j == i + 1 and self.w[i] == X else []
        key = (X, i, j)
        if key in self._t:
            return self._t[key]
        if self.count(X, i, j) == 0:
            return []
        res = []
        for pi, rhs in g.by_lhs[X]:
            for cs in self.trees_seq(tuple(rhs), i, j, limit):
                res.append(("N", pi, cs))
                if len(res) > limit:
                    break
        self._t[key] = res
        return res

    def trees_seq(self, rhs, i, j, limit):
        if not rhs:
            return [[]] if i == j else []
        if self.count_seq(rhs, i, j) == 0:
            return []
        head, tail = rhs[0], rhs[1:]
        res = []
        for k in range(i, j + 1):
            if self.count_seq(tail, k, j) == 0:
                continue
            hs = self.trees(head, i, k, limit)
            if not hs:
                continue
            ts = self.trees_seq(tail, k, j, limit)
            for h in hs:
                for t in ts:
                    res.append([h] + t)
                    if len(res) > limit:
                        return res
        return res


def prefix_viable(g, toks):
    """Is `toks` a prefix of some sentence?  (grammar must have all nonterminals productive.)
    Earley-style recognition of the prefix: we use the oracle on `toks + completion` lazily via
    a simple Earley recogniser."""
    return earley_prefix(g, toks)



class CharOracle(Oracle):
    """The same derivation oracle over the CHARACTERS of the input: a terminal matches wherever its string literal
    occurs, so the derivation trees range over every tokenization (lexically ambiguous grammars with all lexical
    disambiguation strategies switched off). Positions are character (= byte, ASCII only) offsets."""

    def __init__(self, g, text, cap=10 ** 6):
        import copy
        g2 = copy.copy(g)
        ml = {t: len(lit) for t, lit in g.terms.items()}
        changed = True
        while changed:
            changed = False
            for lhs, rhs in g.prods:
                if all(x in ml for x in rhs):
                    v = sum(ml[x] for x in rhs)
                    if v < ml.get(lhs, 10 ** 9):
                        ml[lhs] = v
                        changed = True
        g2.minlen = ml
        super().__init__(g2, text, cap)
        self.text = text

    def count(self, X, i, j):
        if X in self.g.terms:
            return 1 if self.text[i:j] == self.g.terms[X] else 0
        return super().count(X, i, j)

    def trees(self, X, i, j, limit=2000):
        if X in self.g.terms:
            return [("T", X, i)] if self.text[i:j] == self.g.terms[X] else []
        return super().trees(X, i, j, limit)


def earley_prefix(g, toks):
    """Earley recogniser; returns (is_sentence, longest viable prefix length).
    A prefix w[:k] is viable iff chart[k] is non-empty (given all nonterminals productive)."""
    start = g.nts[0]
    n = len(toks)
    chart = [set() for _ in range(n + 1)]
    # item: (lhs, rhs tuple, dot, origin)
    for _, rhs in g.by_lhs[start]:
        chart[0].add((start, tuple(rhs), 0, 0))
    viable = -1
    for k in range(n + 1):
        todo = list(chart[k])
        while todo:
            (l, rhs, d, o) = todo.pop()
            if d < len(rhs):
                s = rhs[d]
                if s in g.by_lhs:
                    for _, r2 in g.by_lhs[s]:
                        it = (s, tuple(r2), 0, k)
                        if it not in chart[k]:
                            chart[k].add(it)
                            todo.append(it)
                    if s in g.nullable:
                        it = (l, rhs, d + 1, o)
                        if it not in chart[k]:
                            chart[k].add(it)
                            todo.append(it)
                elif k < n and toks[k] == s:
                    chart[k + 1].add((l, rhs, d + 1, o))
            else:
                for (l2, rhs2, d2, o2) in list(chart[o]):
                    if d2 < len(rhs2) and rhs2[d2] == l:
                        it = (l2, rhs2, d2 + 1, o2)
                        if it not in chart[k]:
                            chart[k].add(it)
                            todo.append(it)
        if chart[k]:
            viable = k
        else:
            break
    is_sentence = viable == n and any(l == start and d == len(rhs) and o == 0 for (l, rhs, d, o) in chart[n])
    return is_sentence, viable


# ---------- random generation ----------------------------------------------------------

def random_grammar(rng, max_nts=4, max_alts=3, max_rhs=4, nterm=3, p_empty=0.15, p_nt=0.45, unicode=False,
                   layout=None, multiline=False):
    n_nts = rng.randint(1, max_nts)
    nts = NT_NAMES[:n_nts]
    tnames = ["T" + c for c in T_CHARS[:nterm]]
    chars = M_CHARS if multiline else U_CHARS if unicode else T_CHARS
    prods = []
    for nt in nts:
        nalts = rng.randint(1, max_alts)
        seen = set()
        for _ in range(nalts):
            if rng.random() < p_empty:
                rhs = []
            else:
                ln = rng.randint(1, max_rhs)
                rhs = [rng.choice(nts) if rng.random() < p_nt else rng.choice(tnames) for _ in range(ln)]
            if tuple(rhs) in seen:
                continue
            seen.add(tuple(rhs))
            prods.append((nt, rhs))
    used = {s for _, rhs in prods for s in rhs if s in tnames}
    terms = {t: chars[T_CHARS.index(t[1])] for t in tnames if t in used}
    if not terms:
        terms = {tnames[0]: chars[0]}
        prods.append((nts[0], [tnames[0]]))
    g = Gram(prods, terms, layout=layout)
    if rng.random() < 0.15:
        g.sprinkle_empty = rng.randint(1, 5)
    if layout is not None and rng.random() < 0.25:
        g.layout_name = rng.choice(["layout", "LAYOUT", "LayOut"])
    return g


def layered_grammar(rng, nterm=5):
    """deeper, mostly acyclic grammars: 5-11 nonterminals in layers (alternatives refer to later nonterminals), unit-rule
    chains of different lengths joining at shared nonterminals, nullable leaves, the odd guarded direct recursion.
    Complements `random_grammar` (few nonterminals, dense recursion): lookahead propagation through long closure
    chains and through several states only shows on this shape."""
    k = rng.randint(5, 11)
    nts = ["N%d" % i for i in range(k)]
    tnames = ["T" + c for c in T_CHARS[:nterm]]
    prods = []
    refd = {0}
    for i, nt in enumerate(nts):
        later = nts[i + 1:]
        seen = set()
        for _ in range(rng.randint(1, 3)):
            r = rng.random()
            t, t2 = rng.choice(tnames), rng.choice(tnames)
            if not later:
                rhs = [] if r < 0.3 else [t] if r < 0.8 else [t, t2]
            elif r < 0.35:
                rhs = [rng.choice(later[:3])]
            elif r < 0.47:
                rhs = []
            elif r < 0.60:
                rhs = [t, rng.choice(later)]
            elif r < 0.72:
                rhs = [rng.choice(later), t]
            elif r < 0.80:
                rhs = [t, rng.choice(later), t2]
            elif r < 0.88:
                rhs = [rng.choice(later), rng.choice(later)]
            elif r < 0.94:
                rhs = [t]
            elif r < 0.97:
                rhs = [nt, t]
            else:
                rhs = [t, nt]
            if tuple(rhs) in seen:
                continue
            seen.add(tuple(rhs))
            prods.append((nt, rhs))
            refd |= {nts.index(x) for x in rhs if x in nts}
    for j in range(1, k):
        if j not in refd:
            i = rng.randrange(max(0, j - 3), j)
            rhs = [nts[j]] if rng.random() < 0.5 else [rng.choice(tnames), nts[j]]
            if (nts[i], rhs) not in prods:
                prods.append((nts[i], rhs))
    prods.sort(key=lambda p: nts.index(p[0]))
    used = {s for _, rhs in prods for s in rhs if s in tnames}
    terms = {t: T_CHARS[T_CHARS.index(t[1])] for t in tnames if t in used}
    if not terms:
        terms = {tnames[0]: T_CHARS[0]}
        prods.append((nts[0], [tnames[0]]))
    return Gram(prods, terms)


def diamond_grammar(rng):
    """LALR(1)-by-construction family stressing lookahead propagation: 2-3 unit-rule chains of different lengths from the
    start symbol join at a shared nonterminal, each chain followed by its own terminal; below the join a tail chain ends in
    a (possibly nullable, possibly recursive) leaf; optional extra contexts reuse a tail nonterminal after a distinct
    leading terminal (so that LALR merging meets the same cores with other lookaheads)."""
    tn = ["T" + c for c in T_CHARS]
    prods = []
    fresh = iter("N%d" % i for i in range(1, 60))
    nchains = rng.randint(2, 3)
    tail_len = rng.randint(1, 5)
    tail = [next(fresh) for _ in range(tail_len)]
    leaf = next(fresh)
    enders = tn[:nchains]            # Ta, Tb, Tc follow the chains
    lead = tn[3:6]                   # Td, Te, Tf lead the extra contexts
    leaf_t = tn[6]                   # Tg
    start_alts = []
    chains = []
    for c in range(nchains):
        ln = rng.randint(1, 6)
        ch = [next(fresh) for _ in range(ln)]
        chains.append(ch)
        start_alts.append([ch[0], enders[c]])
    for c in range(rng.randint(0, 2)):
        start_alts.append([lead[c], rng.choice(tail + [leaf]), rng.choice(enders + [tn[7]])])
    rng.shuffle(start_alts)
    for a in start_alts:
        prods.append(("S", a))
    for ch in chains:
        join = rng.choice(tail[:2])
        for a, b in zip(ch, ch[1:] + [join]):
            prods.append((a, [b]))
    for a, b in zip(tail, tail[1:] + [leaf]):
        prods.append((a, [b]))
    r = rng.random()
    if r < 0.5:
        prods += [(leaf, [leaf_t]), (leaf, [])]
    elif r < 0.7:
        prods += [(leaf, [leaf_t, leaf]), (leaf, [])]
    elif r < 0.85:
        prods += [(leaf, [])]
    else:
        prods += [(leaf, [leaf_t])]
    order = {}
    for l, _ in prods:
        order.setdefault(l, len(order))
    prods.sort(key=lambda p: order[p[0]])
    used = {s for _, rhs in prods for s in rhs if s in tn}
    return Gram(prods, {t: t[1] for t in tn if t in used})


def seq_grammar(rng):
    for _ in range(50):
        try:
            return _seq_grammar(rng)
        except StopIteration:
            continue
    return _seq_grammar(random.Random(1))


def _seq_grammar(rng):
    """SLR-by-construction family: the start rule is a sequence of 2-5 elements over pairwise distinct terminals, each element
    a nonterminal of one of the shapes  X: 'x'  |  O: 'o' | EMPTY  |  L: L 'b' | EMPTY (nullable, directly LEFT recursive)  |
    R: 'r' R | EMPTY  |  L: L 'b' | 'b'  |  P: O2 'p' (a nullable nonterminal first) , optionally wrapped in a unit rule, followed
    by a closing terminal; 1-2 alternatives with distinct leading terminals. FIRST/FOLLOW through nullable recursive
    nonterminals standing after other nonterminals only shows on this shape."""
    letters = iter("abcdefgh")
    tn = {}

    def term():
        c = next(letters)
        tn["T" + c] = c
        return "T" + c
    prods = []
    fresh = iter("N%d" % i for i in range(1, 40))
    alts = []
    for a in range(rng.randint(1, 2)):
        seq = []
        if a > 0 or rng.random() < 0.5:
            seq.append(term())
        for _ in range(rng.randint(2, 3 if a else 4)):
            try:
                nt = next(fresh)
                kind = rng.choice(["x", "o", "l0", "l0", "r0", "l1", "p"])
                t = term()
                if kind == "x":
                    prods.append((nt, [t]))
                elif kind == "o":
                    prods += [(nt, [t]), (nt, [])]
                elif kind == "l0":
                    prods += [(nt, [nt, t]), (nt, [])]
                elif kind == "r0":
                    prods += [(nt, [t, nt]), (nt, [])]
                elif kind == "l1":
                    prods += [(nt, [nt, t]), (nt, [t])]
                else:
                    o = next(fresh)
                    t2 = term()
                    prods += [(nt, [o, t]), (o, [t2]), (o, [])]
                if rng.random() < 0.25:
                    w = next(fresh)
                    prods.append((w, [nt]))
                    nt = w
                seq.append(nt)
            except StopIteration:
                break
        try:
            seq.append(term())
        except StopIteration:
            pass
        alts.append(seq)
    prods = [("S", a) for a in alts] + prods
    order = {}
    for l, _ in prods:
        order.setdefault(l, len(order))
    prods.sort(key=lambda p: order[p[0]])
    used = {x for _, rhs in prods for x in rhs if x in tn}
    return Gram(prods, {t: c for t, c in tn.items() if t in used})


def twins_grammar(rng):
    """Family for the identity / merging of states: 2-3 'twin' nonterminals whose right-hand sides share a terminal prefix
    (C: x c ; D: x c e), used in several contexts after different leading terminals, directly or through a wrapper rule
    (M: C g) — so that the same kernel is collected in different closure rounds / orders in different states and LALR
    merging meets equal cores with different lookaheads."""
    tn = {"T" + c: c for c in T_CHARS}
    names = list(tn)
    rng.shuffle(names)
    it = iter(names)
    prefix = [next(it) for _ in range(rng.randint(1, 2))]
    twins = []
    prods = []
    sufs = [[], [next(it)], [next(it)]] if rng.random() < 0.5 else [[], [next(it)]]
    for i, suf in enumerate(sufs):
        nt = "C%d" % i
        twins.append(nt)
        prods.append((nt, prefix + suf))
    follow = [next(it), next(it)]
    leads = [next(it), next(it)]
    alts = []
    wrap_n = 0
    for lead in leads:
        for tw in rng.sample(twins, rng.randint(1, len(twins))):
            f = rng.choice(follow)
            if rng.random() < 0.4:
                wrap_n += 1
                w = "M%d" % wrap_n
                prods.append((w, [tw, f]))
                alts.append([lead, w])
            else:
                alts.append([lead, tw, f])
    seen = set()
    top = []
    for a in alts:
        if tuple(a) not in seen:
            seen.add(tuple(a))
            top.append(("S", a))
    prods = top + prods
    refd = {x for _, rhs in prods for x in rhs}
    prods = [p for p in prods if p[0] == "S" or p[0] in refd]
    order = {}
    for l, _ in prods:
        order.setdefault(l, len(order))
    prods.sort(key=lambda p: order[p[0]])
    used = {x for _, rhs in prods for x in rhs if x in tn}
    return Gram(prods, {t: c for t, c in tn.items() if t in used})


def mutual_grammar(rng):
    for _ in range(50):
        try:
            return _mutual_grammar(rng)
        except StopIteration:
            continue
    return _mutual_grammar(random.Random(2))


def _mutual_grammar(rng):
    """Family for lookaheads that travel around LOOPS of the automaton: 2-3 nonterminals calling each other behind a shared
    terminal (A: a C | c ; C: a A | d — the state after `a` has several kernel items feeding each other through the closure and
    a transition to itself), used bare and in deeper contexts with different followers (S: A | C | x x x A y | x x x C z)."""
    tn = {"T" + c: c for c in T_CHARS}
    names = list(tn)
    rng.shuffle(names)
    it = iter(names)
    k = rng.randint(2, 3)
    nts = ["M%d" % i for i in range(k)]
    step = next(it)
    prods = []
    for i, nt in enumerate(nts):
        nxt = nts[(i + 1) % k] if rng.random() < 0.8 else rng.choice(nts)
        st = step if rng.random() < 0.8 else next(it)
        prods.append((nt, [st, nxt]))
        prods.append((nt, [next(it)]))
    alts = []
    for nt in rng.sample(nts, rng.randint(1, k)):
        alts.append([nt])
    lead = next(it)
    depth = rng.randint(1, 3)
    fol = [next(it), step]
    for j, nt in enumerate(rng.sample(nts, rng.randint(1, k))):
        alts.append([lead] * depth + [nt, fol[j % 2] if rng.random() < 0.8 else lead])
    seen, top = set(), []
    for a in alts:
        if tuple(a) not in seen:
            seen.add(tuple(a))
            top.append(("S", a))
    prods = top + prods
    refd = {x for _, rhs in prods for x in rhs}
    changed = True
    while changed:      # keep only rules reachable from S
        reach = {"S"}
        todo = ["S"]
        while todo:
            x = todo.pop()
            for l, rhs in prods:
                if l == x:
                    for y in rhs:
                        if y not in reach:
                            reach.add(y)
                            todo.append(y)
        new = [p for p in prods if p[0] in reach]
        changed = len(new) != len(prods)
        prods = new
    order = {}
    for l, _ in prods:
        order.setdefault(l, len(order))
    prods.sort(key=lambda p: order[p[0]])
    used = {x for _, rhs in prods for x in rhs if x in tn}
    return Gram(prods, {t: c for t, c in tn.items() if t in used})


def annotate(rng, g, p_prod=0.4, p_term=0.2, p_rule=0.1):
    """random disambiguation meta-data on productions, terminals and rules"""
    choices = ["left", "right", "reduce", "shift", "nops", "nopse", "5", "15", "20"]
    pm, tm, rm = {}, {}, {}
    for i, (l, rhs) in enumerate(g.prods):
        if rng.random() < p_prod:
            pm[i] = rng.sample(choices, rng.randint(1, 2))
            if "left" in pm[i] and "right" in pm[i]:
                pm[i].remove("right")
    for t in g.terms:
        if rng.random() < p_term:
            tm[t] = [rng.choice(["left", "right", "5", "15"])]
    for nt in g.nts:
        if rng.random() < p_rule:
            rm[nt] = [rng.choice(["left", "right", "5", "15", "nops"])]
    return Gram(g.prods, g.terms, prod_meta=pm, term_meta=tm, rule_meta=rm, layout=g.layout)


def all_strings(alphabet, maxlen):
    for n in range(maxlen + 1):
        for tup in itertools.product(alphabet, repeat=n):
            yield list(tup)


def random_sentence(g, rng, max_depth=8):
    """random derivation from the start symbol; returns list of terminal names or None."""
    def expand(sym, depth):
        if sym in g.terms:
            return [sym]
        alts = g.by_lhs.get(sym)
        if not alts:
            return None
        if depth <= 0:
            # choose the alternative with minimal length
            alts = [(g.best[sym], g.prods[g.best[sym]][1])]
        _, rhs = rng.choice(alts)
        out = []
        for s in rhs:
            r = expand(s, depth - 1)
            if r is None:
                return None
            out += r
            if len(out) > 30:
                return None
        return out
    if not g.all_productive():
        return None
    return expand(g.nts[0], max_depth)


def mutate(rng, toks, alphabet):
    toks = list(toks)
    k = rng.randint(0, 3)
    if k == 0 and toks:
        del toks[rng.randrange(len(toks))]
    elif k == 1:
        toks.insert(rng.randint(0, len(toks)), rng.choice(alphabet))
    elif k == 2 and toks:
        toks[rng.randrange(len(toks))] = rng.choice(alphabet)
    else:
        toks = toks[: rng.randint(0, len(toks))]
    return toks


def permute_grammar(rng):
    """Family for lookaheads that only MOVE between the kernel items of one state: 2 rules with a shared first terminal
    (A: a c ; B: a d, sometimes one symbol longer), used in 2-3 contexts whose prefixes have DIFFERENT lengths and whose
    follow terminals are permuted between the rules (p A x | p B y | q r A y | q r B x).  The state after the shared terminal is
    reached twice; the second arrival adds to each kernel item a terminal the OTHER item already has - the union over the
    state does not grow.  LALR(1) and LR(1)-deterministic (the rules diverge at their second terminal); nothing else in the
    automaton merges, so a construction that skips propagation 'when nothing grew' loses exactly these lookaheads."""
    names = ["T" + c for c in T_CHARS]
    rng.shuffle(names)
    it = iter(names)
    shared = next(it)
    r2 = [next(it), next(it)]
    follow = [next(it), next(it)]
    lead = [next(it), next(it), next(it)]
    longer = rng.random() < 0.3
    prods = []
    rules = ["A", "B"]
    for nt, t in zip(rules, r2):
        prods.append((nt, [shared, t] + ([shared] if longer else [])))
    ctx = [[lead[0]], [lead[1], lead[2]]]
    if rng.random() < 0.3:
        ctx.append([lead[2], lead[0], lead[1]])
    rng.shuffle(ctx)
    top = []
    for j, pre in enumerate(ctx):
        perm = follow if j % 2 == 0 else follow[::-1]
        for nt, f in zip(rules, perm):
            top.append(("S", pre + [nt, f]))
    prods = top + prods
    tn = {"T" + c: c for c in T_CHARS}
    used = {x for _, rhs in prods for x in rhs if x in tn}
    return Gram(prods, {t: c for t, c in tn.items() if t in used})


def samerest_grammar(rng):
    """Family for the closure's lookahead computation per ITEM: 2-3 wrapper rules with the SAME right-hand side `B Rest` where
    Rest is non-empty and nullable (one or two optional symbols), used with different follow terminals (S: P p | Q q;
    P: B Opt; Q: B Opt; Opt: c | EMPTY).  One state then holds several items whose symbols after the dot nonterminal are
    identical while their own lookaheads differ: FIRST(Rest lookahead) must be taken per item, not per rest."""
    names = ["T" + c for c in T_CHARS]
    rng.shuffle(names)
    it = iter(names)
    prods = []
    k = rng.randint(2, 3)
    rest = ["O1"] if rng.random() < 0.6 else ["O1", "O2"]
    wr = ["W%d" % i for i in range(k)]
    for w in wr:
        prods.append(("S", [w, next(it)]))
    for w in wr:
        prods.append((w, ["B"] + rest))
    prods.append(("B", [next(it)]))
    for o in rest:
        t = next(it)
        alts = [[t], []]
        rng.shuffle(alts)
        for a in alts:
            prods.append((o, a))
    tn = {"T" + c: c for c in T_CHARS}
    used = {x for _, rhs in prods for x in rhs if x in tn}
    return Gram(prods, {t: c for t, c in tn.items() if t in used})
