"""Shared machinery of ./check: builds, harness/driver execution, axiom audit, evidence, findings."""
import binascii
import hashlib
import json
import glob
import os
import re
import shutil
import subprocess
import sys
import time

VERIF = os.path.dirname(os.path.dirname(os.path.abspath(__file__)))
LEAN = os.path.join(VERIF, "lean")
HARNESS = os.path.join(VERIF, "harness")
WORK = os.path.join(VERIF, "work")
REPLAYS = os.path.join(VERIF, "replays")
EVIDENCE = os.path.join(VERIF, "evidence")
DRIVER = os.path.join(LEAN, ".lake", "build", "bin", "rustemo_model")
VDYN = os.path.join(HARNESS, "target", "debug", "vdyn")
NPROC = min(16, os.cpu_count() or 4)
ALLOWED_AXIOMS = {"propext", "Classical.choice", "Quot.sound"}
FORBIDDEN = ["sorry", "admit", "native_decide", "bv_decide", "implemented_by", "unsafe ", "maxHeartbeats 0"]

ENV = dict(os.environ, CARGO_NET_OFFLINE="true")


def hx(s):
    if isinstance(s, str):
        s = s.encode()
    return binascii.hexlify(s).decode() if s else "="


def unhx(s):
    return b"" if s == "=" else binascii.unhexlify(s)


def sh(cmd, cwd=None, timeout=3600, env=None):
    p = subprocess.run(cmd, cwd=cwd, shell=isinstance(cmd, str), capture_output=True, text=True,
                       timeout=timeout, env=env or ENV)
    return p.returncode, p.stdout, p.stderr


def workdir(tag):
    d = os.path.join(WORK, f"{tag}-{os.getpid()}")
    shutil.rmtree(d, ignore_errors=True)
    os.makedirs(d, exist_ok=True)
    return d


# ---------------------------------------------------------------------------------------------
# builds
# ---------------------------------------------------------------------------------------------

def build_lean(targets):
    """lake build of the given targets (module names / exe). Returns (ok, log)."""
    rc, out, err = sh(["lake", "build"] + list(targets), cwd=LEAN, timeout=3000)
    return rc == 0, out + err


def strip_comments(src):
    # remove /- ... -/ (nested not needed here) and -- line comments
    src = re.sub(r"/-.*?-/", "", src, flags=re.S)
    src = re.sub(r"--.*", "", src)
    return src


def forbidden_tokens():
    hits = []
    for root, _, files in os.walk(os.path.join(LEAN, "Rustemo")):
        for f in files:
            if f.endswith(".lean"):
                p = os.path.join(root, f)
                src = strip_comments(open(p).read())
                for tok in FORBIDDEN:
                    if tok in src:
                        hits.append(f"{os.path.relpath(p, LEAN)}: {tok.strip()}")
                if re.search(r"^\s*axiom\s", src, flags=re.M):
                    hits.append(f"{os.path.relpath(p, LEAN)}: axiom")
    return hits


def theorems_in(module):
    """names of the theorems declared in a Props module (fully qualified)."""
    path = os.path.join(LEAN, *module.split(".")) + ".lean"
    src = strip_comments(open(path).read())
    ns = []
    names = []
    for line in src.splitlines():
        m = re.match(r"\s*namespace\s+(\S+)", line)
        if m:
            ns.append(m.group(1))
            continue
        m = re.match(r"\s*end\s+(\S+)", line)
        if m and ns and ns[-1] == m.group(1):
            ns.pop()
            continue
        m = re.match(r"\s*(?:private\s+|protected\s+)?theorem\s+(\S+)", line)
        if m:
            names.append(".".join(ns + [m.group(1)]))
    return names


def audit_axioms(module, names):
    """#print axioms for each theorem; returns dict name -> sorted axiom list (None if it failed)."""
    d = workdir("audit")
    f = os.path.join(d, "Audit.lean")
    with open(f, "w") as fh:
        fh.write(f"import {module}\n")
        for n in names:
            fh.write(f"#print axioms {n}\n")
    rc, out, err = sh(["lake", "env", "lean", f], cwd=LEAN, timeout=1200)
    shutil.rmtree(d, ignore_errors=True)
    res = {}
    text = out + err
    # "'X' depends on axioms: [a, b]" or "'X' does not depend on any axioms"
    for m in re.finditer(r"'([^']+)' depends on axioms: \[([^\]]*)\]", text, flags=re.S):
        res[m.group(1)] = sorted(x.strip() for x in m.group(2).replace("\n", " ").split(",") if x.strip())
    for m in re.finditer(r"'([^']+)' does not depend on any axioms", text):
        res[m.group(1)] = []
    return {n: res.get(n) for n in names}, text if rc != 0 else ""


def build_harness():
    lock_src = "/repo/Cargo.lock"
    dst = os.path.join(HARNESS, "dyn", "Cargo.lock")
    if not os.path.exists(dst):
        shutil.copy(lock_src, dst)
    rc, out, err = sh(["cargo", "build", "--offline"], cwd=os.path.join(HARNESS, "dyn"), timeout=3000)
    return rc == 0, out + err


# ---------------------------------------------------------------------------------------------
# running the implementation harness and the model driver
# ---------------------------------------------------------------------------------------------

def _chunks(groups, n):
    """split list of groups into n shards of roughly equal job count"""
    shards = [[] for _ in range(n)]
    sizes = [0] * n
    for g in sorted(groups, key=lambda g: -len(g)):
        i = sizes.index(min(sizes))
        shards[i].append(g)
        sizes[i] += len(g)
    return [s for s in shards if s]


VDYN_EXTRA_ENV = {}      # e.g. {"RUSTEMO_TRACE": "1"}: the real parsers' trace output (to stderr, discarded) is produced


def run_vdyn(groups, tag="vdyn"):
    """groups: list of lists of job lines (a group starts with its G job). Returns list of lists of
    answers in the same shape."""
    d = workdir(tag)
    idx = list(range(len(groups)))
    shards = _chunks([(i, g) for i, g in zip(idx, groups)], NPROC) if False else None
    # keep groups intact; shard by index round robin weighted by size
    order = sorted(idx, key=lambda i: -len(groups[i]))
    n = min(NPROC, max(1, len(groups)))
    shard_ids = [[] for _ in range(n)]
    sizes = [0] * n
    for i in order:
        k = sizes.index(min(sizes))
        shard_ids[k].append(i)
        sizes[k] += len(groups[i])
    procs = []
    for k, ids in enumerate(shard_ids):
        jf = os.path.join(d, f"jobs{k}.txt")
        of = os.path.join(d, f"out{k}.txt")
        with open(jf, "w") as fh:
            for i in ids:
                for line in groups[i]:
                    fh.write(line + "\n")
        procs.append((ids, of, subprocess.Popen([VDYN, jf, of], stdout=subprocess.DEVNULL,
                                                stderr=subprocess.DEVNULL, env=dict(ENV, **VDYN_EXTRA_ENV))))
    answers = [None] * len(groups)
    for ids, of, p in procs:
        p.wait()
        # a `C` job that panics inside process_grammar leaves its scratch directory behind
        for leftover in glob.glob(os.path.join(WORK, f"c16-{p.pid}-*")):
            shutil.rmtree(leftover, ignore_errors=True)
        for leftover in glob.glob(os.path.join(WORK, f"pf-{p.pid}-*")):
            try:
                os.remove(leftover)
            except OSError:
                pass
        lines = open(of).read().splitlines() if os.path.exists(of) else []
        pos = 0
        for i in ids:
            n_i = len(groups[i])
            chunk = lines[pos:pos + n_i]
            pos += n_i
            answers[i] = [l.split(" ", 1)[1] if " " in l else "" for l in chunk]
            while len(answers[i]) < n_i:
                answers[i].append("harness-crash")
    shutil.rmtree(d, ignore_errors=True)
    return answers


def run_model(groups, tag="model"):
    """groups: list of lists of request lines for the Lean driver; same-shape answers."""
    d = workdir(tag)
    idx = list(range(len(groups)))
    order = sorted(idx, key=lambda i: -len(groups[i]))
    n = min(NPROC, max(1, len(groups)))
    shard_ids = [[] for _ in range(n)]
    sizes = [0] * n
    for i in order:
        k = sizes.index(min(sizes))
        shard_ids[k].append(i)
        sizes[k] += len(groups[i])
    procs = []
    for k, ids in enumerate(shard_ids):
        rf = os.path.join(d, f"req{k}.txt")
        of = os.path.join(d, f"ans{k}.txt")
        with open(rf, "w") as fh:
            for i in ids:
                for line in groups[i]:
                    fh.write(line + "\n")
        fin = open(rf)
        fout = open(of, "w")
        procs.append((ids, of, subprocess.Popen([DRIVER], stdin=fin, stdout=fout, stderr=subprocess.DEVNULL)))
    answers = [None] * len(groups)
    for ids, of, p in procs:
        p.wait()
        lines = open(of).read().splitlines()
        pos = 0
        for i in ids:
            n_i = len(groups[i])
            answers[i] = lines[pos:pos + n_i]
            pos += n_i
            while len(answers[i]) < n_i:
                answers[i].append("driver-crash")
    shutil.rmtree(d, ignore_errors=True)
    return answers


# ---------------------------------------------------------------------------------------------
# known findings, replays, evidence
# ---------------------------------------------------------------------------------------------

def load_findings():
    p = os.path.join(VERIF, "known_findings.json")
    if not os.path.exists(p):
        return []
    return json.load(open(p))["findings"]


def write_replay(prop, payload):
    os.makedirs(REPLAYS, exist_ok=True)
    blob = json.dumps(payload, sort_keys=True, indent=1)
    h = hashlib.sha1(blob.encode()).hexdigest()[:10]
    path = os.path.join(REPLAYS, f"{prop}-{h}.json")
    with open(path, "w") as fh:
        fh.write(blob + "\n")
    return path


class Report:
    """collects what a check did; writes evidence; prints VIOLATION / KNOWN-FINDING lines."""

    def __init__(self, prop, tier, seed, level="proof"):
        self.prop = prop
        self.tier = tier
        self.seed = seed
        self.level = level
        self.t0 = time.time()
        self.violations = []      # (replay path, suffix)
        self.known = []
        self.obligations = []     # (name, discharged bool, detail)
        self.cov = {}
        self.samples = []
        self.assumptions = []
        self.trusted = []
        self.notes = []
        self.counters = {}

    def count(self, key, n=1):
        self.counters[key] = self.counters.get(key, 0) + n

    def oblige(self, name, ok, detail=""):
        self.obligations.append((name, bool(ok), detail))

    def violation(self, payload, no_input=False):
        payload = dict(payload)
        payload["property"] = self.prop
        path = write_replay(self.prop, payload)
        self.violations.append((path, no_input))

    def known_finding(self, key, what):
        if all(k != key for k, _ in self.known):
            self.known.append((key, what))

    def sample(self, s):
        if len(self.samples) < 8:
            self.samples.append(s)

    def finish(self):
        wall = time.time() - self.t0
        n_ob = len(self.obligations)
        n_ok = sum(1 for _, ok, _ in self.obligations if ok)
        cov = dict(self.cov)
        cov.setdefault("evaluations", self.counters.get("evaluations", 0))
        cov.setdefault("distinct_nontrivial", self.counters.get("distinct_nontrivial", 0))
        cov["obligations"] = n_ob
        cov["discharged"] = n_ok
        cov["obligation_list"] = [{"name": n, "discharged": ok, "detail": d} for n, ok, d in self.obligations]
        cov.setdefault("checker_cmd", "cd /verif/lean && lake build Rustemo.Props.%s && lake env lean <#print axioms audit>" % self.prop)
        cov["trusted_base"] = self.trusted or [
            "Lean 4.33.0 kernel", "axioms ⊆ {propext, Classical.choice, Quot.sound}",
            "Lean compiler/runtime for the executable driver",
            "verif hook dump (rustemo-compiler/src/verif.rs)", "harness/dyn, tools/*.py"]
        cov["samples"] = self.samples or ["(none)"]
        cov["counters"] = self.counters
        cov["notes"] = self.notes
        ev = {
            "property_id": self.prop, "tier": self.tier, "seed": self.seed, "level": self.level,
            "coverage": cov, "assumptions": self.assumptions, "wall_s": round(wall, 2),
            "violations": len(self.violations),
            "known_findings": [{"key": k, "what": w} for k, w in self.known],
        }
        os.makedirs(EVIDENCE, exist_ok=True)
        evdir = EVIDENCE
        if getattr(self, "is_replay", False):
            evdir = os.path.join(os.path.dirname(EVIDENCE), "work", "replay-evidence")
            os.makedirs(evdir, exist_ok=True)
        with open(os.path.join(evdir, f"{self.prop}.json"), "w") as fh:
            json.dump(ev, fh, indent=1, sort_keys=True)
            fh.write("\n")
        for k, w in self.known:
            print(f"KNOWN-FINDING: property={self.prop} {k}: {w}")
        for path, no_input in self.violations:
            print(f"VIOLATION property={self.prop} replay={path}" + (" no-failing-input-found" if no_input else ""))
        print(f"[{self.prop}] tier={self.tier} seed={self.seed} obligations={n_ok}/{n_ob} "
              f"evaluations={cov['evaluations']} violations={len(self.violations)} wall={wall:.1f}s")
        return 1 if self.violations else 0


def lean_obligations(rep, prop_module, extra_targets=()):
    """Build the Props module (+driver), audit axioms of every theorem in it, grep forbidden tokens.
    Registers obligations on the report. Returns True iff everything checked."""
    ok, log = build_lean([prop_module, "rustemo_model"] + list(extra_targets))
    if not ok:
        rep.oblige(f"lake build {prop_module}", False, log[-2000:])
        return False
    rep.oblige(f"lake build {prop_module}", True)
    names = theorems_in(prop_module)
    axioms, errtext = audit_axioms(prop_module, names)
    all_ok = True
    for n in names:
        ax = axioms.get(n)
        good = ax is not None and set(ax) <= ALLOWED_AXIOMS
        rep.oblige(f"theorem {n}", good, "axioms: " + (", ".join(ax) if ax is not None else "NOT CHECKED " + errtext[-300:]))
        all_ok = all_ok and good
    hits = forbidden_tokens()
    rep.oblige("no sorry/admit/axiom/native_decide/bv_decide/implemented_by/unsafe/maxHeartbeats 0", not hits, "; ".join(hits))
    if getattr(rep, "tier", "quick") == "thorough":
        # independent re-check of the compiled Props module by the toolchain's second kernel front end
        try:
            rc, out, err = sh(["lake", "env", "leanchecker", prop_module], cwd=LEAN, timeout=1800)
            rep.oblige(f"leanchecker {prop_module}", rc == 0, (out + err)[-600:])
            all_ok = all_ok and rc == 0
        except Exception as e:
            rep.oblige(f"leanchecker {prop_module}", False, str(e)[:300])
            all_ok = False
    return all_ok and not hits
