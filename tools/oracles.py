"""Property oracles evaluated on IMPLEMENTATION output (independent of the Lean model)."""
import treeparse as tp

WS_CHARS = set("\t\n\x0b\x0c\r \x85\xa0                　")


def pos_spec(data, off):
    """(line, col) the property prescribes for byte offset `off`"""
    before = data[:off]
    line = 1 + before.count(b"\n")
    last = before.rfind(b"\n")
    col = off - (last + 1)
    return line, col


def check_pos(data, p):
    off, line, col = p
    if off > len(data):
        return f"offset {off} beyond input"
    if line is None:
        # text input: every position carries line/column (a position that lost them locates nothing for the user)
        return f"position {off} carries no line/column"
    l, c = pos_spec(data, off)
    if (l, c) != (line, col):
        return f"position {off}: line/col {line}:{col}, expected {l}:{c}"
    return None


def span_oracle(inp, t, elided_ok=False):
    """C13 on one tree; returns list of problems"""
    data = inp.encode()
    probs = []
    leaves = tp.leaves(t)
    # tokens: value is the very slice of the input at its span; ordered; non-overlapping
    prev_end = 0
    for lf in leaves:
        (s, e) = lf["span"]
        for p in (s, e):
            m = check_pos(data, p)
            if m:
                probs.append(m)
        v = lf["val"]
        if v is None or v[0] == "ext":
            probs.append(f"token value of kind {lf['kind']} is not a slice of the input buffer")
        else:
            if v[0] != s[0] or v[0] + v[1] != e[0]:
                probs.append(f"token value slice {v} differs from its span {s[0]}-{e[0]}")
        if s[0] < prev_end or e[0] < s[0]:
            probs.append(f"token spans out of order/overlapping at {s[0]}")
        prev_end = max(prev_end, e[0])

    # walk with knowledge of the preceding token end and next token start for empty nodes
    order = []  # sequence of ('tok', start, end) | ('empty', node)

    def walk(n):
        if n["k"] == "T":
            order.append(("tok", n["span"][0][0], n["span"][1][0]))
            return
        (s, e) = n["span"]
        for p in (s, e):
            m = check_pos(data, p)
            if m:
                probs.append(m)
        lv = tp.leaves(n)
        if not lv:
            if s[0] != e[0]:
                probs.append(f"empty nonterminal (prod {n['prod']}) has non-zero width {s[0]}-{e[0]}")
            order.append(("empty", s[0], n["prod"]))
            # children (all empty) still visited for their own checks
            for c in n["cs"]:
                walk(c)
            return
        for c in n["cs"]:
            walk(c)
        # span from start of first child to end of last child
        fc, lc = n["cs"][0], n["cs"][-1]
        if s[0] != fc["span"][0][0]:
            probs.append(f"nonterminal (prod {n['prod']}) starts at {s[0]}, first child at {fc['span'][0][0]}")
        if e[0] != lc["span"][1][0]:
            probs.append(f"nonterminal (prod {n['prod']}) ends at {e[0]}, last child at {lc['span'][1][0]}")
    walk(t)
    # empty nodes lie between the end of the preceding token (or 0) and the start of the next token
    for i, it in enumerate(order):
        if it[0] != "empty":
            continue
        prev_end = 0
        for j in range(i - 1, -1, -1):
            if order[j][0] == "tok":
                prev_end = order[j][2]
                break
        next_start = len(data)
        for j in range(i + 1, len(order)):
            if order[j][0] == "tok":
                next_start = order[j][1]
                break
        if not (prev_end <= it[1] <= next_start):
            probs.append(f"empty nonterminal (prod {it[2]}) at {it[1]} not between preceding token end {prev_end} "
                         f"and next token start {next_start}")
    return probs


def is_ws(b):
    try:
        s = b.decode()
    except UnicodeDecodeError:
        return False
    return all(ch in WS_CHARS for ch in s)


def roundtrip_oracle(inp, t, layout_kind=None):
    """C14: leaves' (layout ++ value) concatenated reproduce the consumed input up to trailing layout"""
    data = inp.encode()
    out = b""
    probs = []
    for lf in tp.leaves(t):
        lay = lf["lay"]
        if lay is not None:
            if lay[0] == "ext":
                probs.append("layout is not a slice of the input")
                continue
            lb = data[lay[0]:lay[0] + lay[1]]
            if layout_kind is None and not is_ws(lb):
                probs.append(f"stored layout {lb!r} is not whitespace")
            out += lb
        v = lf["val"]
        if v is None or v[0] == "ext":
            probs.append("token value not a slice of the input")
            continue
        out += data[v[0]:v[0] + v[1]]
    if not data.startswith(out):
        probs.append(f"leaves+layout reconstruct {out!r}, input is {data!r}")
    return probs, out


def first_offending(g, toks):
    """(k, is_sentence): k = index of the first token that cannot continue any sentence beginning with the
    tokens before it; k = len(toks) if toks is a proper prefix of a sentence. Requires a reduced grammar."""
    from gram import earley_prefix
    is_sentence, viable = earley_prefix(g, toks)
    # viable = longest k such that toks[:k] is a viable prefix  => offending token index = viable
    return viable, is_sentence


import re as _re

# sentences of the three Layout rules of tools/gram.py, recognised independently of rustemo
LAYOUT_RE = {"ws": _re.compile(r"\s+\Z"), "comments": _re.compile(r"(?:\s+|//[^\n]*)*\Z")}


def nested_ok(s):
    """loose check for the nested-comment Layout: whitespace, // line comments, balanced /* */ blocks"""
    i, depth = 0, 0
    while i < len(s):
        if s.startswith("/*", i):
            depth += 1
            i += 2
        elif s.startswith("*/", i) and depth > 0:
            depth -= 1
            i += 2
        elif depth > 0:
            i += 1
        elif s[i].isspace():
            i += 1
        elif s.startswith("//", i):
            j = s.find("\n", i)
            i = len(s) if j < 0 else j
        else:
            return False
    return depth == 0


def layout_sentence(kind, s):
    """is `s` (possibly empty) a concatenation of sentences of the Layout rule of that kind"""
    if s == "":
        return True
    if kind == "nested":
        return nested_ok(s)
    return bool(LAYOUT_RE[kind].match(s))


def tokenizable(kind, text, term_chars):
    """can `text` be split into single-character content tokens (term_chars) separated by well-formed layout of that
    kind (None: whitespace skipping)? An unterminated block comment or a foreign character makes it False."""
    i, n = 0, len(text)
    while i < n:
        ch = text[i]
        if ch in term_chars:
            i += 1
        elif ch.isspace() or ch in WS_CHARS:
            i += 1
        elif kind in ("comments", "nested") and text.startswith("//", i):
            j = text.find("\n", i)
            i = n if j < 0 else j
        elif kind == "nested" and text.startswith("/*", i):
            depth, j = 0, i
            while j < n:
                if text.startswith("/*", j):
                    depth += 1
                    j += 2
                elif text.startswith("*/", j):
                    depth -= 1
                    j += 2
                    if depth == 0:
                        break
                else:
                    j += 1
            if depth != 0:
                return False
            i = j
        else:
            return False
    return True
